#!/usr/bin/env python3
"""Run the repository's own test suite with the verification guard OFF and compare
with /root/.vp/BASELINE.json (every stable test must still pass)."""
import json, os, re, subprocess, sys
env = dict(os.environ)
env.pop("RUSTFLAGS", None)
env["CARGO_NET_OFFLINE"] = "true"
p = subprocess.run(["cargo", "test", "--workspace", "--no-fail-fast", "--offline"],
                   cwd="/repo", env=env, stdout=subprocess.PIPE, stderr=subprocess.STDOUT, text=True)
cur = None
res = {}
for line in p.stdout.splitlines():
    m = re.match(r"\s*Running (unittests )?(\S+)", line)
    if m:
        path = m.group(2)
        cur = None if m.group(1) else os.path.splitext(os.path.basename(path))[0]
        continue
    m = re.match(r"test (\S+) \.\.\. (\w+)", line)
    if m:
        name = "rrss::" + (cur + "::" if cur else "") + m.group(1)
        res[name] = m.group(2)
base = json.load(open("/root/.vp/BASELINE.json"))
missing = [t for t in base["stable_pass"] if res.get(t) != "ok"]
npass = sum(1 for v in res.values() if v == "ok")
print(f"baseline: {npass} passed, {len(res)-npass} not ok, stable missing: {len(missing)}")
for t in missing:
    print("  NOT PASSING:", t, res.get(t))
sys.exit(1 if missing else 0)
