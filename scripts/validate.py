#!/opt/veriftools/pyvenv/bin/python
import json, jsonschema, sys, glob
jsonschema.validate(json.load(open('/verif/MANIFEST.json')), json.load(open('/root/.vp/MANIFEST.schema.json')))
print('manifest valid')
es = json.load(open('/root/.vp/EVIDENCE.schema.json'))
for f in sorted(glob.glob('/verif/evidence/*.json')):
    try:
        jsonschema.validate(json.load(open(f)), es); print(f, 'valid')
    except Exception as e:
        print(f, 'INVALID', str(e)[:300])
