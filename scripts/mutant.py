#!/usr/bin/env python3
"""Run checks against a patched scratch copy of kepler-5/rrss (sensitivity testing only; never a registered command).

  scripts/mutant.py PATCH.diff C05[,C09,...|all] [--tier quick|thorough] [--seed N] [--keep] [--name NAME]

Creates /tmp/mut/<name>/{repo (git worktree of /repo HEAD + patch), engine (copy of /verif/engine pointing at it),
target}, runs ./check for each property with the VERIF_REPO / VERIF_ENGINE / VERIF_TARGET overrides, prints one line
per property (`MUTANT <name> <id> rc=<rc> <first failure line>`), and removes everything again."""
import hashlib, os, re, shutil, subprocess, sys

def sh(cmd, **kw):
    return subprocess.run(cmd, stdout=subprocess.PIPE, stderr=subprocess.STDOUT, text=True, **kw)

def main():
    args = sys.argv[1:]
    if len(args) < 2:
        print(__doc__); sys.exit(2)
    patch = os.path.abspath(args[0])
    props = args[1]
    tier, seed, keep, name = "quick", None, False, None
    i = 2
    while i < len(args):
        if args[i] == "--tier": i += 1; tier = args[i]
        elif args[i] == "--seed": i += 1; seed = args[i]
        elif args[i] == "--keep": keep = True
        elif args[i] == "--name": i += 1; name = args[i]
        i += 1
    if props == "all":
        props = ",".join(f"C{n:02d}" for n in range(1, 21))
    name = name or hashlib.sha1(open(patch, "rb").read()).hexdigest()[:10]
    root = f"/tmp/mut/{name}"
    repo = root + "/repo"
    shutil.rmtree(root, ignore_errors=True)
    sh(["git", "-C", "/repo", "worktree", "prune"])
    os.makedirs(root)
    rc_all = 0
    try:
        p = sh(["git", "-C", "/repo", "worktree", "add", "--detach", repo, "HEAD"])
        if p.returncode != 0:
            print(p.stdout); sys.exit(2)
        p = sh(["git", "-C", repo, "apply", "--whitespace=nowarn", patch])
        if p.returncode != 0:
            print("patch does not apply:", p.stdout); sys.exit(2)
        # MUTANT_ENGINE_SRC / the marker directory: evaluate with a frozen copy of the engine (first-run evaluations of a seeding round
        # while the engine is being worked on)
        esrc = os.environ.get("MUTANT_ENGINE_SRC") or ("/tmp/engine-frozen" if os.path.isdir("/tmp/engine-frozen") else "/verif/engine")
        shutil.copytree(esrc, root + "/engine", ignore=shutil.ignore_patterns("target"))
        os.symlink("/verif/corpus", root + "/corpus")
        ct = root + "/engine/vcheck/Cargo.toml"
        s = open(ct).read().replace('path = "/repo"', f'path = "{repo}"')
        open(ct, "w").write(s)
        cc = root + "/engine/.cargo/config.toml"
        s = re.sub(r'target-dir = "[^"]*"', f'target-dir = "{root}/target"', open(cc).read())
        open(cc, "w").write(s)
        # registry dependencies are reused from the main build output; rrss, engine-core and vcheck rebuild
        if os.path.isdir("/verif/target"):
            sh(["cp", "-r", "/verif/target", root + "/target"])
        os.makedirs(root + "/evidence", exist_ok=True)
        env = dict(os.environ, VERIF_REPO=repo, VERIF_ENGINE=root + "/engine", VERIF_TARGET=root + "/target",
                   VERIF_EVIDENCE_DIR=root + "/evidence", VERIF_TIER=tier)
        if seed:
            env["VERIF_SEED"] = seed
        for pid in props.split(","):
            p = sh(["/verif/check", pid, tier], env=env, cwd="/verif")
            first = ""
            for line in p.stdout.splitlines():
                if line.startswith("failure:") or line.startswith("INCONCLUSIVE"):
                    first = line[:400]; break
            viol = [l for l in p.stdout.splitlines() if l.startswith("VIOLATION")]
            print(f"MUTANT {name} {pid} rc={p.returncode} {viol[0] if viol else ''} {first}", flush=True)
            if p.returncode not in (0, 1):
                print(p.stdout[-3000:])
            rc_all = max(rc_all, p.returncode)
    finally:
        if not keep:
            sh(["git", "-C", "/repo", "worktree", "remove", "--force", repo])
            shutil.rmtree(root, ignore_errors=True)
            sh(["git", "-C", "/repo", "worktree", "prune"])
    sys.exit(0)

main()
