#!/bin/sh
# scripts/seed_all.sh [parallel] : re-evaluate every filed seed against its owning check at the current commit
P="${1:-3}"
ls /verif/seeded | grep -v '^_' | xargs -P "$P" -I{} sh -c 'python3 /verif/scripts/seed_eval.py {} 2>&1 | tail -1 | cut -c1-160'
