#!/usr/bin/env python3
"""scripts/seed_eval.py SEED_ID [PROPS] — run the owning check (or PROPS) against /verif/seeded/SEED_ID/patch.diff in a
scratch copy (scripts/mutant.py) and record the outcome in its meta.json."""
import json, os, re, subprocess, sys, time
sid = sys.argv[1]
d = f"/verif/seeded/{sid}"
meta = json.load(open(d + "/meta.json"))
props = sys.argv[2] if len(sys.argv) > 2 else meta["property"]
tier = sys.argv[3] if len(sys.argv) > 3 else "quick"
p = subprocess.run(["python3", "/verif/scripts/mutant.py", d + "/patch.diff", props, "--name", sid, "--tier", tier],
                   stdout=subprocess.PIPE, stderr=subprocess.STDOUT, text=True)
head = subprocess.run(["git", "-C", "/verif", "rev-parse", "--short", "HEAD"], stdout=subprocess.PIPE, text=True).stdout.strip()
for line in p.stdout.splitlines():
    m = re.match(r"MUTANT (\S+) (\S+) rc=(\d+) ?(.*)", line)
    if m:
        pid, rc, rest = m.group(2), int(m.group(3)), m.group(4)
        meta.setdefault("checks_run", {})[f"{pid} {tier}"] = {
            "cmd": f"scripts/mutant.py seeded/{sid}/patch.diff {pid} --tier {tier}  (= ./check {pid} {tier} against a scratch worktree with the patch applied)",
            "rc": rc, "detected": rc == 1, "first_failure": rest[:300], "verif_commit": head, "when": time.strftime("%Y-%m-%d %H:%M")}
        print(f"{sid} {pid} {tier}: {'DETECTED' if rc == 1 else 'MISSED' if rc == 0 else 'INCONCLUSIVE'} {rest[:200]}")
    elif not line.startswith("MUTANT"):
        print("   ", line[:300])
json.dump(meta, open(d + "/meta.json", "w"), indent=1)
