#!/usr/bin/env python3
"""Regenerate /verif/MANIFEST.json from the table below (one entry per claimed property)."""
import json, subprocess

HOOK_COMMITS = ["4a93766", "4da9cd2", "079b228"]

CLAIMED = {
 "C01": dict(
   technique="property-based testing: enumerated token-class pairs/triples + token-soup and mutation fuzzing of parse() under a fuel hook, debug and release profiles compared by digest",
   text="Generated-input search for a text on which parse() panics, loops (deterministic fuel verdict), or renders no error; enumerates every pair/triple of token classes, then ~1.5M (quick) soup/mutant/deep-chain texts per profile; 54 flat floods (20 000 / 50 000 repetitions of one unit without nesting) are parsed on a 2 MiB stack in-process and by the real rrss tool (unoptimised build in the dev profile). Exploration: finds counterexamples, never proves absence.",
   note="trusts the parse-fuel bound 500x(len+10) as 'does not terminate'; the engine's dev profile is opt-level 2 + debug assertions + overflow checks (only the flood leg sees a build without optimisation); rustc/std; proptest",
   ref="5/C01"),
 "C02": dict(
   technique="property-based testing: round trip generated tree -> rendered text (random spelling tape) -> parse -> tree, three spellings per tree, both profiles",
   text="Grammar-directed generator of syntax trees (all 18 statement kinds, precedence levels, list operands, calls, subscripts, poetic forms, nested blocks) x a spelling tape choosing aliases, case, optional words, separators, noise, comments, layout; the parsed tree must equal the generated one for the canonical and two random spellings. 300k trees x 3 spellings per profile (quick).",
   note="the generator encodes which trees rrss's greedy grammar can express (DESIGN 1.3, Appendix B); a wrong exclusion would show as a rejected rendering, i.e. an alarm to triage, not a silent pass",
   ref="5/C02"),
 "C03": dict(
   technique="property-based testing: differential against an independent reference interpreter; exhaustive operator x 50-value-universe table sweep plus random nested expressions",
   text="Every cell of every operator table over a 50-value universe (all kinds and boundaries) is executed and compared with the reference model through a kind-separating probe triple (exhaustive for that universe), then 300k random nested expressions in seven statement positions (quick).",
   note="reference model transcribed from the language rules (DESIGN Appendix A) and validated cell by cell; std f64 formatting/parsing trusted; error kinds not compared",
   ref="5/C03"),
 "C14": dict(
   technique="property-based testing: metamorphic/algebraic laws between runs of rrss, exhaustive over all ordered pairs of the value universe plus random pairs",
   text="For all 2500 ordered pairs of the universe (exhaustive) and 120k random pairs (quick): symmetry of is, isnt/is not/ain't = negation, < vs >, <= vs >= incl. error symmetry, (<= and >=) = is when ordered, not/and/or/nor vs truthiness observed by if, compound assignment = expansion, build^n knock^n restores; both as programs and through Val's public methods. No model involved.",
   note="restoration by build/knock is only demanded where every intermediate sum is exactly representable (integers, dyadic fractions; not -0), otherwise IEEE rounding decides, not rrss",
   ref="5/C14"),
 "C12": dict(
   technique="property-based testing: validity predicate over the token stream (slices, gaps, line/column) computed from the source alone, on token-soup texts, both profiles",
   text="Every generated text is lexed and each token checked against a predicate derived from the source only (sub-slice, order, ignorable gaps, start/end line+byte column, payload = spelling, keyword class = alias table). ~1.5M texts per profile in the quick tier.",
   note="the predicate transcribes the statement; alias table transcribed from KEYWORDS; end positions of tokens ending in a line break are exempt as the statement says",
   ref="5/C12"),
 "C04": dict(
   technique="property-based testing: differential against an independent reference interpreter on generated nested if/while/until/break/continue programs; non-termination decided by an exec-fuel hook",
   text="300k (quick) generated control-flow programs per profile (nested if/else incl. empty branches, counter-guarded and free-form while/until, break/continue in both spellings from any if depth, conditions of every value kind, an erroring statement at a random point) are executed by rrss and by the reference model; printed markers and success/error must be identical; an rrss run using more than 10x the model's steps is a non-termination verdict.",
   note="reference model (DESIGN Appendix A); break/continue outside loops never generated (unspecified); free-form loops beyond 2000 model steps are discarded and counted",
   ref="5/C04"),
 "C05": dict(
   technique="property-based testing: differential against an independent reference interpreter on generated function/scope/pronoun programs with expected-failure probes",
   text="120k (quick) programs per profile with 1-4 functions of all name kinds, recursion, returns from inside loops/ifs, shadowing, scope-sensitive idioms, pronoun reads/writes and one expected-failure probe (pronoun after block/call, dead local, wrong arity, call of a variable, unknown name) in half of them; stdout and success/error must equal the reference model's under both scope readings.",
   note="the statement's 'enclosing scope' is read both dynamically (rrss) and lexically; only programs whose meaning is the same under both are judged (skips counted)",
   ref="5/C05"),
 "C06": dict(
   technique="property-based testing: model-based stateful testing; generated operation histories over four array variables interpreted by a deep-copy reference model, full state dump after every mutating step",
   text="200k (quick) histories per profile of 1-14 operations (nested element writes with every index/key kind, element stores of copies, rock/roll in every form, whole-variable copies, by-value argument passing to a mutating function, arithmetic/comparison/printing of arrays, error candidates); after each mutating step all four variables are dumped and compared with the model, so any aliasing between copies shows as a differing dump.",
   note="reference model with deep-copy values; arrays <= 64 elements, indices <= 40",
   ref="5/C06"),
 "C07": dict(
   technique="property-based testing: differential against a reference implementation of split/join/cast/round over generated operands, parameters and destinations",
   text="400k (quick) programs per profile of 1-4 cut/join/cast/turn steps on variables, array elements and pronouns, with and without `into` and `with`, over strings (empty, multi-byte, delimiters at ends/overlapping, via listen), numbers (fractions, negatives, huge, NaN, code-point boundaries), all radices incl. invalid ones, arrays with non-string elements; operand, holder and destination are dumped and compared with the model (result, operand unchanged/replaced, error vs success).",
   note="reference model with its own leftmost non-overlapping split; radix digits and f64 syntax by std (trusted)",
   ref="5/C07"),
 "C08": dict(
   technique="property-based testing with fault injection: instrumented reader/writer, call log vs the reference model's I/O trace, every writer/reader fault offset enumerated per program",
   text="100k (quick) say/listen programs x inputs per profile; each runs fault-free (the logged write/read sequence must equal the model's I/O trace) and then once per writer fault offset and per reader fault offset (all offsets when <= 64, else 64 spread): bytes received == prefix of the fault-free transcript, IOError exactly when the stream was needed beyond the fault, no read/write call after the fault, no panic.",
   note="the instrumented reader hands out one line per read call so log order is program order; input is valid UTF-8 without CR before LF",
   ref="5/C08"),
 "C09": dict(
   technique="property-based testing / crash fuzzing: type-directed wild program generator plus token-level mutations of valid programs, executed under catch_unwind with fuel/allocation hooks in debug and release profiles",
   text="300k (quick) parser-accepted programs per profile (every statement on every value kind, shared function/variable/parameter names, boundary indices/radices/code points, degenerate poetic literals, top-level break/continue/return, invalid UTF-8 input; plus mutated repository test programs); execution must end in Ok or a RuntimeError with a non-empty message: no panic, debug assertion, or profile disagreement. All 22 RuntimeError leaf variants are reached.",
   note="resource bound: 400 reference steps (fuel 10x) for generated programs, flat 2000 iterations+calls and 4e6 elements per allocation for mutated texts; exhaustion is out of the property's bound and counted",
   ref="5/C09"),
 "C10": dict(
   technique="property-based testing: metamorphic 'run it again' relation across fresh hasher keys (same thread, fresh threads, fresh processes), generator aimed at dictionary-order leaks",
   text="20k (quick) programs per profile, 60% building arrays with 2-6 non-numeric keys and then joining/printing/comparing/erring on them; each (source, input) is parsed, linted and run 6 times in one thread and in 2 fresh threads, and 16 batches of 150 cases are replayed in 2 fresh processes each; output bytes, result, error text and lint reports must be identical.",
   note="hasher seeds cannot be chosen: relies on std re-keying per table/thread/process; a leak with n>=2 keys shows per pair of runs with probability >= 1/2",
   ref="5/C10"),
 "C11": dict(
   technique="property-based testing: generated poetic word sequences and line texts checked against an independent digit rule (decimal numeral -> correctly rounded f64) and byte-exact string oracle",
   text="500k (quick) poetic literals: number literals (1-300 words plus extreme ones of ~430 digits per side, lengths incl. multiples of 10, apostrophes, stacked 's/'re suffixes, hyphens, keywords as words, periods/commas anywhere, non-ASCII), poetic strings (any line text closed on the line, followed by lines that must survive) and expression-like right-hand sides per profile; printed value and compute_value() vs the numeral spelled by the words, within the stated ulp tolerance (exact for integers < 2^53).",
   note="poetic strings bounded to texts whose quotes/parentheses close on the line (F11, outside the quantifier); tolerance 16 ulp for non-integers (measured maximum 8); std f64 parsing trusted",
   ref="5/C11"),
 "C13": dict(
   technique="property-based testing: fault injection into generated valid programs; oracle = rejected, on the line computed from the text",
   text="600k (quick) triples (valid generated program, statement position at any depth or EOF, one of 37 context-independent faulty lines) per profile; parse must return an error whose location and rendered text name exactly the line of the injected fault, also behind multi-line strings/comments and inside nested blocks.",
   note="each faulty line has no valid reading wherever a statement may start (two only at top level); expected line = 1 + line breaks before the insertion point",
   ref="5/C13"),
 "C15": dict(
   technique="property-based testing: metamorphic relation between a program and its injectively renamed, re-cased rendering",
   text="60k (quick) program pairs per profile from the control-flow, function and array generators: every name mapped to a fresh name of a random kind (simple/common/proper; ASCII, accented, Greek, Cyrillic), every mention and keyword independently re-cased; both renderings must print the same bytes and end with the same success/error variant.",
   note="letters without one-to-one per-character case mapping (final sigma, sharp s, dotless i) are outside the statement's 'ASCII and accented letters'; error texts are not compared (they quote names)",
   ref="5/C15"),
 "C16": dict(
   technique="property-based testing: recording visitors over generated trees compared with an independent tree walk, every failing-callback index enumerated",
   text="80k (quick) parsed grammar-generated trees per profile x every choice of the failing callback (all indices up to 40 events, 40 spread beyond); two recording visitors (leaf-only, and mid-level dispatching) driven by the public runner must log exactly the independent walk's sequence (each node once, reading order), fold left to right from the default, and with failure at callback k log exactly k events and return that error unchanged.",
   note="expected order from an independent walk over public tree fields; statement-level leaves not delegated to the inner visitor cannot be observed",
   ref="5/C16"),
 "C17": dict(
   technique="property-based testing: differential between the constant folders and the interpreter on generated constant / unknown / other expressions inside random preludes",
   text="500k (quick) expressions per profile in labelled classes; whenever a folder reports a value, executing `say <expr>` after a random prelude must print exactly that value; constant-class expressions must fold to the independently computed IEEE value; expressions reading a variable, pronoun, element, call or roll must not fold.",
   note="constant values recomputed independently with IEEE f64 arithmetic, left fold over list operands; poetic literal values are C11's subject",
   ref="5/C17"),
 "C18": dict(
   technique="property-based testing: expected lint set recomputed from the generated tree; every suggestion parsed back (round trip) and executed",
   text="400k (quick) programs per profile of assignment-like statements over constant (0 digits, fractions, negative, -0, huge, inf, NaN), string (blanks, punctuation, line breaks) and non-constant right-hand sides at every nesting depth; the constant-assignment pass must report exactly the expected statements with target, value and line; the star-words of every suggestion must spell the reported value and, for plain variables, the suggested line must parse and assign that value; values without poetic spelling get no suggestion.",
   note="each `*` of a suggestion stands for a letter; statements spanning several lines accept any of their lines; C11 tolerance for fractions",
   ref="5/C18"),
 "C19": dict(
   technique="property-based testing: independent recomputation of the repeated-identifier analysis and of the merged report order over generated, wild and mutated programs",
   text="400k (quick) parsed programs per profile from five generators; linting must not panic, must leave the program's Debug text unchanged, must return the stable by-line merge of the per-pass reports, and the repeated-identifier reports must equal an independent recomputation over the tree in traversal order (with line and text).",
   note="traversal order as fixed by C16; consecutive mentions never differ only in case (the statement does not say how case is compared)",
   ref="5/C19"),
 "C20": dict(
   technique="property-based testing: differential between the real rrss binary run as a subprocess and the library called in-process on generated program files and inputs; refused usages enumerated",
   text="8k (quick) generated program files x standard inputs per profile (succeeding, failing at parse time on various lines, failing at run time after 0..n lines of output, reading input incl. invalid UTF-8, with many lint reports) are run through the real binary as `exec` (separate streams, and both streams on one file to observe ordering), `lint` and `parse`; stdout/stderr bytes must equal the library's output, the prefixed library error, the library's diagnostics and the library's tree. A fixed and a generated list of refused usages (missing file, directory, no/extra argument, unknown flag/subcommand, invalid UTF-8 path) must exit non-zero.",
   note="NO_COLOR=1 (colour is not part of the property); exit status of program errors is unspecified and only recorded; streams are files, not pipes; programs beyond 3000 library steps skipped and counted",
   ref="5/C20"),
}

NA_REASON = {
}

SUFFIX = " The generators also produce the rare wide and history-dependent shapes that six rounds of independently seeded breaking changes showed to matter (DESIGN.md section 10; the evidence file's rule lists them). The cases of a shard run one after another on one thread, with interludes in between (runs that fail deep inside calls, streams that fail mid-line, rejected texts, lint runs): a case whose result depends on what ran before it on the thread is reported with that history in its replay (DESIGN.md section 8). Thorough tier: 2-30x the cases."
FUZZ_SUFFIX = " The thorough tier adds a coverage-guided libFuzzer leg carrying the same oracle."

ALL = [json.loads(l)["id"] for l in open("/verif/properties.jsonl")]

def main():
    checks = []
    for pid in ALL:
        if pid not in CLAIMED:
            continue
        c = CLAIMED[pid]
        checks.append({
            "property_id": pid,
            "quick_cmd": f"./check {pid} quick",
            "thorough_cmd": f"./check {pid} thorough",
            "evidence_file": f"/verif/evidence/{pid}.json",
            "replay_cmd_template": f"./check {pid} --replay {{path}}",
            "engine": "vcheck",
            "level_claimed": {"category": "exploration", "text": c["text"] + SUFFIX + ("" if pid in ("C10", "C20") else FUZZ_SUFFIX), "design_ref": c["ref"]},
            "level_note": c["note"],
            "technique": c["technique"],
        })
    m = {
        "version": 1,
        "setup_cmd": "./setup.sh",
        "hooks": {
            "guard": "kepler_5_rrss_verif",
            "enable": "cfg flag: rustflags --cfg kepler_5_rrss_verif in /verif/engine/.cargo/config.toml (rrss is a path dependency on /repo, rebuilt from the working tree by every check)",
            "baseline_off_cmd": "python3 /verif/scripts/baseline.py",
            "source_commits": HOOK_COMMITS,
            "add_only": True,
        },
        "engines": [
            {"name": "vcheck", "path": "/verif/engine", "serves_properties": sorted(CLAIMED),
             "kind_free_text": "Rust workspace (C20 additionally builds the real rrss binary from /repo into /verif/target/cli and runs it as a subprocess): engine-core (mini-AST, tape-driven grammar generators, renderer, reference model) + vcheck (property runners over rrss, proptest generation/shrinking, 16 shards, dev+release profiles)"},
        ],
        "checks": checks,
        "notes": "All checks: exit 0 held / 1 VIOLATION line with replay / 2 inconclusive. VERIF_SEED and VERIF_TIER honoured. known findings: /verif/known_findings.json",
        "not_applicable": [{"property_id": p, "reason": NA_REASON.get(p, "check under construction (not yet claimed)")} for p in ALL if p not in CLAIMED],
    }
    json.dump(m, open("/verif/MANIFEST.json", "w"), indent=1)
    print("claimed:", sorted(CLAIMED))

main()
