#!/usr/bin/env python3
"""Regenerate /verif/MANIFEST.json from the table below (one entry per claimed property)."""
import json, subprocess

HOOK_COMMITS = ["4a93766"]

CLAIMED = {
 "C01": dict(
   technique="property-based testing: enumerated token-class pairs/triples + token-soup and mutation fuzzing of parse() under a fuel hook, debug and release profiles compared by digest",
   text="Generated-input search for a text on which parse() panics, loops (deterministic fuel verdict), or renders no error; enumerates every pair/triple of token classes, then ~1.5M (quick) soup/mutant/deep-chain texts per profile. Exploration: finds counterexamples, never proves absence.",
   note="trusts the parse-fuel bound 500x(len+10) as 'does not terminate'; rustc/std; proptest",
   ref="5/C01"),
 "C12": dict(
   technique="property-based testing: validity predicate over the token stream (slices, gaps, line/column) computed from the source alone, on token-soup texts, both profiles",
   text="Every generated text is lexed and each token checked against a predicate derived from the source only (sub-slice, order, ignorable gaps, start/end line+byte column, payload = spelling, keyword class = alias table). ~1.5M texts per profile in the quick tier.",
   note="the predicate transcribes the statement; alias table transcribed from KEYWORDS; end positions of tokens ending in a line break are exempt as the statement says",
   ref="5/C12"),
}

ALL = [json.loads(l)["id"] for l in open("/verif/properties.jsonl")]

def main():
    checks = []
    for pid in ALL:
        if pid not in CLAIMED:
            continue
        c = CLAIMED[pid]
        checks.append({
            "property_id": pid,
            "quick_cmd": f"./check {pid} quick",
            "thorough_cmd": f"./check {pid} thorough",
            "evidence_file": f"/verif/evidence/{pid}.json",
            "replay_cmd_template": f"./check {pid} --replay {{path}}",
            "engine": "vcheck",
            "level_claimed": {"category": "exploration", "text": c["text"], "design_ref": c["ref"]},
            "level_note": c["note"],
            "technique": c["technique"],
        })
    m = {
        "version": 1,
        "setup_cmd": "./setup.sh",
        "hooks": {
            "guard": "kepler_5_rrss_verif",
            "enable": "cfg flag: rustflags --cfg kepler_5_rrss_verif in /verif/engine/.cargo/config.toml (rrss is a path dependency on /repo, rebuilt from the working tree by every check)",
            "baseline_off_cmd": "python3 /verif/scripts/baseline.py",
            "source_commits": HOOK_COMMITS,
            "add_only": True,
        },
        "engines": [
            {"name": "vcheck", "path": "/verif/engine", "serves_properties": sorted(CLAIMED),
             "kind_free_text": "Rust workspace: engine-core (mini-AST, tape-driven grammar generators, renderer, reference model) + vcheck (property runners over rrss, proptest generation/shrinking, 16 shards, dev+release profiles)"},
        ],
        "checks": checks,
        "notes": "All checks: exit 0 held / 1 VIOLATION line with replay / 2 inconclusive. VERIF_SEED and VERIF_TIER honoured. known findings: /verif/known_findings.json",
        "not_applicable": [{"property_id": p, "reason": "check under construction in this session (not yet claimed)"} for p in ALL if p not in CLAIMED],
    }
    json.dump(m, open("/verif/MANIFEST.json", "w"), indent=1)
    print("claimed:", sorted(CLAIMED))

main()
