#!/usr/bin/env python3
"""Regenerate /verif/MANIFEST.json from the table below (one entry per claimed property)."""
import json, subprocess

HOOK_COMMITS = ["4a93766"]

CLAIMED = {
 "C01": dict(
   technique="property-based testing: enumerated token-class pairs/triples + token-soup and mutation fuzzing of parse() under a fuel hook, debug and release profiles compared by digest",
   text="Generated-input search for a text on which parse() panics, loops (deterministic fuel verdict), or renders no error; enumerates every pair/triple of token classes, then ~1.5M (quick) soup/mutant/deep-chain texts per profile. Exploration: finds counterexamples, never proves absence.",
   note="trusts the parse-fuel bound 500x(len+10) as 'does not terminate'; rustc/std; proptest",
   ref="5/C01"),
 "C02": dict(
   technique="property-based testing: round trip generated tree -> rendered text (random spelling tape) -> parse -> tree, three spellings per tree, both profiles",
   text="Grammar-directed generator of syntax trees (all 18 statement kinds, precedence levels, list operands, calls, subscripts, poetic forms, nested blocks) x a spelling tape choosing aliases, case, optional words, separators, noise, comments, layout; the parsed tree must equal the generated one for the canonical and two random spellings. 60k trees x 3 spellings per profile (quick).",
   note="the generator encodes which trees rrss's greedy grammar can express (DESIGN 1.3, Appendix B); a wrong exclusion would show as a rejected rendering, i.e. an alarm to triage, not a silent pass",
   ref="5/C02"),
 "C03": dict(
   technique="property-based testing: differential against an independent reference interpreter; exhaustive operator x 45-value-universe table sweep plus random nested expressions",
   text="Every cell of every operator table over a 45-value universe (all kinds and boundaries) is executed and compared with the reference model through a kind-separating probe triple (exhaustive for that universe), then 300k random nested expressions in seven statement positions (quick).",
   note="reference model transcribed from the language rules (DESIGN Appendix A) and validated cell by cell; std f64 formatting/parsing trusted; error kinds not compared",
   ref="5/C03"),
 "C14": dict(
   technique="property-based testing: metamorphic/algebraic laws between runs of rrss, exhaustive over all ordered pairs of the value universe plus random pairs",
   text="For all 2025 ordered pairs of the universe (exhaustive) and 100k random pairs (quick): symmetry of is, isnt/is not/ain't = negation, < vs >, <= vs >= incl. error symmetry, (<= and >=) = is when ordered, not/and/or/nor vs truthiness observed by if, compound assignment = expansion, build^n knock^n restores; both as programs and through Val's public methods. No model involved.",
   note="restoration by build/knock is only demanded where every intermediate sum is exactly representable (integers, dyadic fractions; not -0), otherwise IEEE rounding decides, not rrss",
   ref="5/C14"),
 "C12": dict(
   technique="property-based testing: validity predicate over the token stream (slices, gaps, line/column) computed from the source alone, on token-soup texts, both profiles",
   text="Every generated text is lexed and each token checked against a predicate derived from the source only (sub-slice, order, ignorable gaps, start/end line+byte column, payload = spelling, keyword class = alias table). ~1.5M texts per profile in the quick tier.",
   note="the predicate transcribes the statement; alias table transcribed from KEYWORDS; end positions of tokens ending in a line break are exempt as the statement says",
   ref="5/C12"),
}

ALL = [json.loads(l)["id"] for l in open("/verif/properties.jsonl")]

def main():
    checks = []
    for pid in ALL:
        if pid not in CLAIMED:
            continue
        c = CLAIMED[pid]
        checks.append({
            "property_id": pid,
            "quick_cmd": f"./check {pid} quick",
            "thorough_cmd": f"./check {pid} thorough",
            "evidence_file": f"/verif/evidence/{pid}.json",
            "replay_cmd_template": f"./check {pid} --replay {{path}}",
            "engine": "vcheck",
            "level_claimed": {"category": "exploration", "text": c["text"], "design_ref": c["ref"]},
            "level_note": c["note"],
            "technique": c["technique"],
        })
    m = {
        "version": 1,
        "setup_cmd": "./setup.sh",
        "hooks": {
            "guard": "kepler_5_rrss_verif",
            "enable": "cfg flag: rustflags --cfg kepler_5_rrss_verif in /verif/engine/.cargo/config.toml (rrss is a path dependency on /repo, rebuilt from the working tree by every check)",
            "baseline_off_cmd": "python3 /verif/scripts/baseline.py",
            "source_commits": HOOK_COMMITS,
            "add_only": True,
        },
        "engines": [
            {"name": "vcheck", "path": "/verif/engine", "serves_properties": sorted(CLAIMED),
             "kind_free_text": "Rust workspace: engine-core (mini-AST, tape-driven grammar generators, renderer, reference model) + vcheck (property runners over rrss, proptest generation/shrinking, 16 shards, dev+release profiles)"},
        ],
        "checks": checks,
        "notes": "All checks: exit 0 held / 1 VIOLATION line with replay / 2 inconclusive. VERIF_SEED and VERIF_TIER honoured. known findings: /verif/known_findings.json",
        "not_applicable": [{"property_id": p, "reason": "check under construction in this session (not yet claimed)"} for p in ALL if p not in CLAIMED],
    }
    json.dump(m, open("/verif/MANIFEST.json", "w"), indent=1)
    print("claimed:", sorted(CLAIMED))

main()
