#!/bin/sh
# scripts/thorough_all.sh [props...] : run every thorough check once on the current tree (evidence to a scratch dir), log timing
props="$@"; [ -z "$props" ] && props="C11 C13 C17 C18 C19 C16 C12 C01 C02 C03 C04 C06 C07 C14 C08 C09 C05 C10 C15 C20"
mkdir -p /verif/work/thor_ev
for p in $props; do
  t0=$(date +%s)
  VERIF_EVIDENCE_DIR=/verif/work/thor_ev /verif/check $p thorough > /verif/work/thor_$p.log 2>&1; rc=$?
  t1=$(date +%s)
  echo "$p rc=$rc $((t1-t0))s $(grep -E '^VIOLATION|^INCONCLUSIVE' /verif/work/thor_$p.log | head -1) | $(grep -E 'thorough release' /verif/work/thor_$p.log | cut -c1-120) | $(grep -c '^fuzz ' /verif/work/thor_$p.log) fuzz legs"
done
