#!/bin/sh
# scripts/sweep.sh "1 2 3" [quick|thorough] [props...] : silence sweep over several seeds on the current tree (evidence goes to a scratch dir)
seeds="$1"; tier="${2:-quick}"; shift; shift
props="$@"; [ -z "$props" ] && props="C01 C02 C03 C04 C05 C06 C07 C08 C09 C10 C11 C12 C13 C14 C15 C16 C17 C18 C19 C20"
mkdir -p /verif/work/sweep_ev
for s in $seeds; do for p in $props; do
  VERIF_SEED=$s VERIF_EVIDENCE_DIR=/verif/work/sweep_ev /verif/check $p $tier > /verif/work/sweep_$p_$s.log 2>&1; rc=$?
  echo "seed=$s $p rc=$rc $(grep -E '^VIOLATION|^INCONCLUSIVE' /verif/work/sweep_$p_$s.log | head -1)"
done; done
rm -rf /verif/work/sweep_ev
