#!/usr/bin/env python3
"""Confirm a sub-agent's seeded change and file it under /verif/seeded/<id>/.

  scripts/seed_intake.py WORKTREE PROPERTY [A B ...]

For each letter: start from clean sources in WORKTREE, apply seed_out/<L>/patch.diff, run the repository's suite against
the baseline (must still pass), run the demonstration (must fail), revert, run the demonstration (must pass).
Only then copy patch.diff, the demonstration and README.md to /verif/seeded/<PROPERTY><L>/ with a meta.json."""
import json, os, shutil, subprocess, sys, time

def sh(cmd, cwd=None, env=None):
    e = dict(os.environ, CARGO_NET_OFFLINE="true")
    e.pop("RUSTFLAGS", None)
    if env: e.update(env)
    p = subprocess.run(cmd, cwd=cwd, env=e, stdout=subprocess.PIPE, stderr=subprocess.STDOUT, text=True)
    return p.returncode, p.stdout

def run_demo(wt, d):
    if os.path.exists(d + "/demo.rs"):
        shutil.copy(d + "/demo.rs", wt + "/tests/seed_demo.rs")
        rc, out = sh(["cargo", "test", "--offline", "--test", "seed_demo"], cwd=wt)
        os.remove(wt + "/tests/seed_demo.rs")
        tail = [l for l in out.splitlines() if l.startswith("test result") or "error" in l[:10]]
        return rc, "cargo test --offline --test seed_demo", "; ".join(tail[-2:])
    elif os.path.exists(d + "/demo.sh"):
        rc, out = sh(["sh", d + "/demo.sh", wt], cwd=wt)
        return rc, "sh demo.sh", out.strip().splitlines()[-1] if out.strip() else ""
    return None, "", "no demonstration"

def main():
    wt, prop = sys.argv[1], sys.argv[2]
    # A B (letters in seed_out), optionally renamed on filing: A=C B=D
    letters = sys.argv[3:] or ["A", "B"]
    for spec in letters:
        L, _, name = spec.partition("=")
        name = name or L
        d = f"{wt}/seed_out/{L}"
        if not os.path.exists(d + "/patch.diff"):
            print(f"{prop}{name}: no patch"); continue
        sh(["git", "checkout", "--", "src"], cwd=wt)
        rc, out = sh(["git", "apply", "--whitespace=nowarn", d + "/patch.diff"], cwd=wt)
        if rc != 0:
            print(f"{prop}{name}: patch does not apply: {out[:300]}"); continue
        _, files = sh(["git", "diff", "--stat"], cwd=wt)
        rcb, outb = sh(["python3", "/tmp/seed/tools/baseline.py", wt])
        base_line = outb.strip().splitlines()[-1] if outb.strip() else ""
        rc1, cmd, res1 = run_demo(wt, d)
        sh(["git", "checkout", "--", "src"], cwd=wt)
        rc0, _, res0 = run_demo(wt, d)
        ok = rcb == 0 and rc1 not in (0, None) and rc0 == 0
        print(f"{prop}{name}: baseline rc={rcb} ({base_line}); demo with change rc={rc1} ({res1}); demo without rc={rc0} ({res0}) => {'CONFIRMED' if ok else 'REJECTED'}")
        if not ok:
            continue
        dst = f"/verif/seeded/{prop}{name}"
        shutil.rmtree(dst, ignore_errors=True)
        os.makedirs(dst)
        for f in ("patch.diff", "demo.rs", "demo.sh", "README.md"):
            if os.path.exists(f"{d}/{f}"):
                shutil.copy(f"{d}/{f}", dst)
        readme = open(d + "/README.md").read() if os.path.exists(d + "/README.md") else ""
        meta = {
            "property": prop,
            "origin": "independent sub-agent given only the property text and a scratch worktree",
            "needs_to_manifest": "see README.md",
            "files_touched": [l.split("|")[0].strip() for l in files.splitlines() if "|" in l],
            "confirmed": {
                "when": time.strftime("%Y-%m-%d"),
                "worktree": "scratch git worktree of /repo HEAD (removed afterwards)",
                "baseline": {"cmd": "cargo test --workspace --no-fail-fast --offline (compared with BASELINE.json)", "rc": rcb, "result": base_line},
                "demo_with_change": {"cmd": cmd, "rc": rc1, "result": res1},
                "demo_without_change": {"cmd": cmd, "rc": rc0, "result": res0},
            },
            "checks_run": {},
        }
        json.dump(meta, open(dst + "/meta.json", "w"), indent=1)

main()
