#!/bin/sh
# scripts/seed_batch.sh C05 C06 ... : confirm, file and evaluate the two seeds of each finished sub-agent, then drop its worktree
for id in "$@"; do
  python3 /verif/scripts/seed_intake.py /tmp/seed/$id $id 2>&1 | tail -2 | cut -c1-330
  for L in A B; do
    [ -d /verif/seeded/$id$L ] && python3 /verif/scripts/seed_eval.py $id$L 2>&1 | tail -3
  done
  git -C /repo worktree remove --force /tmp/seed/$id; rm -rf /tmp/seed/$id
done
