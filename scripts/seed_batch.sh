#!/bin/sh
# scripts/seed_batch.sh C05 C06 ...      : round 1 (worktree /tmp/seed/<id>, seeds <id>A <id>B)
# ROUND=2 scripts/seed_batch.sh C05 ...  : round 2 (worktree /tmp/seed/R2<id>, seeds <id>C <id>D); ROUND=3: R3<id>, <id>E <id>F
# confirm, file and evaluate the two seeds of each finished sub-agent, then drop its worktree
for id in "$@"; do
  if [ "$ROUND" = 2 ]; then wt=/tmp/seed/R2$id; spec="A=C B=D"; names="C D";
  elif [ "$ROUND" = 3 ]; then wt=/tmp/seed/R3$id; spec="A=E B=F"; names="E F";
  elif [ "$ROUND" = 4 ]; then wt=/tmp/seed/R4$id; spec="A=G B=H"; names="G H";
  elif [ "$ROUND" = 5 ]; then wt=/tmp/seed/R5$id; spec="A=I B=J"; names="I J";
  elif [ "$ROUND" = 6 ]; then wt=/tmp/seed/R6$id; spec="A=K B=L"; names="K L";
  else wt=/tmp/seed/$id; spec="A B"; names="A B"; fi
  python3 /verif/scripts/seed_intake.py $wt $id $spec 2>&1 | tail -2 | cut -c1-330
  for L in $names; do
    [ -d /verif/seeded/$id$L ] && python3 /verif/scripts/seed_eval.py $id$L 2>&1 | tail -3
  done
  git -C /repo worktree remove --force $wt; rm -rf $wt
done
