#!/usr/bin/env python3
"""Coverage-guided leg of a check (thorough tier): libFuzzer targets from /verif/fuzz carrying the property's oracle.

  scripts/fuzzleg.py Cxx SEED EVIDENCE.json [--runs N] [--jobs J]

Builds the targets twice from the repository's current working tree with the verification cfg on (default build:
optimised + debug assertions + ASan; -O build: no debug assertions + ASan), runs J processes per build with seeds
SEED+i on a fresh corpus (repository snippets / random tapes), and merges what was explored into the evidence file.
Exit 0 nothing found / 1 VIOLATION (replay written by the target or converted from the crash artefact) / 2 inconclusive."""
import glob, json, os, random, re, shutil, subprocess, sys, time

ROOT = "/verif"
REPO = os.environ.get("VERIF_REPO", "/repo")
FUZZ = os.environ.get("VERIF_FUZZ", ROOT + "/fuzz")
TRIPLE = "x86_64-unknown-linux-gnu"

# property -> (target, kind)
TARGETS = {
    "C01": [("text_parse", "text")],
    "C12": [("text_lex", "text")],
    "C09": [("text_exec", "text"), ("tape", "tape")],
    "C19": [("text_lint", "text"), ("tape", "tape")],
}
for _p in ("C02", "C03", "C04", "C05", "C06", "C07", "C08", "C11", "C13", "C14", "C15", "C16", "C17", "C18"):
    TARGETS[_p] = [("tape", "tape")]

def build(opt):
    env = dict(os.environ, CARGO_NET_OFFLINE="true", RUSTFLAGS="--cfg kepler_5_rrss_verif")
    tdir = FUZZ + ("/target-O" if opt else "/target")
    cmd = ["cargo", "+nightly", "fuzz", "build", "--fuzz-dir", FUZZ, "--target-dir", tdir] + (["-O"] if opt else [])
    p = subprocess.run(cmd, cwd=FUZZ, env=env, stdout=subprocess.PIPE, stderr=subprocess.STDOUT, text=True)
    if p.returncode != 0:
        sys.stdout.write(p.stdout[-4000:])
        print("INCONCLUSIVE: cargo fuzz build failed")
        sys.exit(2)
    return f"{tdir}/{TRIPLE}/release"

def seed_corpus(kind, d, seed):
    os.makedirs(d, exist_ok=True)
    rnd = random.Random(seed)
    if kind == "text":
        for i, s in enumerate(json.load(open(ROOT + "/corpus/snippets.json"))):
            open(f"{d}/snippet{i:03d}", "w").write(s)
    else:
        for i in range(64):
            n = rnd.choice([16, 64, 200, 400, 800, 1600])
            open(f"{d}/tape{i:03d}", "wb").write(bytes(rnd.getrandbits(8) for _ in range(n)))

def main():
    pid, seed, evidence = sys.argv[1], int(sys.argv[2]), sys.argv[3]
    runs, jobs = None, 8
    a = sys.argv[4:]
    for i, x in enumerate(a):
        if x == "--runs": runs = int(a[i + 1])
        if x == "--jobs": jobs = int(a[i + 1])
    if pid not in TARGETS:
        sys.exit(0)
    t0 = time.time()
    bins = {"debug-assertions+asan": build(False), "O+asan": build(True)}
    work = f"{ROOT}/work/fuzz-{os.getpid()}"
    shutil.rmtree(work, ignore_errors=True)
    os.makedirs(work)
    dict_path = work + "/rockstar.dict"
    vc = os.environ.get("VERIF_TARGET", ROOT + "/target") + "/release/vcheck"
    open(dict_path, "w").write(subprocess.run([vc, "DICT"], stdout=subprocess.PIPE, text=True).stdout)
    legs, violations, inconclusive = [], [], []
    try:
        for target, kind in TARGETS[pid]:
            n_runs = runs or (300_000 if kind == "text" else 8_000)
            max_len = 768 if kind == "text" else 2400
            for bname, bdir in bins.items():
                cdir = f"{work}/corpus-{target}-{bname}"
                adir = f"{work}/artifacts-{target}-{bname}/"
                seed_corpus(kind, cdir, seed)
                os.makedirs(adir, exist_ok=True)
                procs = []
                for j in range(jobs):
                    log = open(f"{work}/{target}-{bname}-{j}.log", "w")
                    cmd = [f"{bdir}/{target}", cdir, f"-runs={n_runs}", f"-seed={(seed + j) % 4294967295 + 1}", f"-max_len={max_len}",
                           "-len_control=0", "-timeout=120", "-rss_limit_mb=6000", "-print_final_stats=1", f"-artifact_prefix={adir}"]
                    if kind == "text":
                        cmd.append(f"-dict={dict_path}")
                    env = dict(os.environ, VCHECK_FUZZ_PROP=pid, ASAN_OPTIONS="detect_leaks=0:allocator_may_return_null=1")
                    procs.append((subprocess.Popen(cmd, cwd=work, env=env, stdout=log, stderr=subprocess.STDOUT), log))
                execs = cov = ft = 0
                for j, (p, log) in enumerate(procs):
                    rc = p.wait()
                    log.close()
                    text = open(log.name, errors="replace").read()
                    m = re.findall(r"stat::number_of_executed_units:\s*(\d+)", text)
                    execs += int(m[-1]) if m else 0
                    m = re.findall(r"cov: (\d+) ft: (\d+)", text)
                    if m:
                        cov, ft = max(cov, int(m[-1][0])), max(ft, int(m[-1][1]))
                    v = [l for l in text.splitlines() if l.startswith("VIOLATION property=")]
                    if v:
                        violations.append((v[0], [l for l in text.splitlines() if l.startswith("failure:")][:1]))
                    elif rc != 0:
                        arts = sorted(glob.glob(adir + "*"))
                        kind_of = "timeout" if "ALARM" in text or "timeout" in text.lower() and "ERROR: libFuzzer: timeout" in text else \
                                  "oom" if "out-of-memory" in text else "crash"
                        if kind_of == "crash" and arts:
                            # sanitizer report or abort outside of the oracle: the artefact is the witness
                            raw = open(arts[-1], "rb").read()
                            rdir = f"{ROOT}/replays/{pid}"
                            os.makedirs(rdir, exist_ok=True)
                            path = f"{rdir}/fuzz-crash-{os.path.basename(arts[-1])[-16:]}.json"
                            summary = [l for l in text.splitlines() if "ERROR: AddressSanitizer" in l or "SUMMARY" in l or "panicked" in l][:3]
                            case = {"src": raw.decode("utf-8", "replace")} if kind == "text" else None
                            json.dump({"property": pid, "message": "libFuzzer target crashed outside of the oracle: " + " | ".join(summary),
                                       "origin": f"{target} ({bname})", "case": case, "artifact_hex": raw.hex(),
                                       "reproduce_with": f"VCHECK_FUZZ_PROP={pid} {bdir}/{target} <artefact file>"}, open(path, "w"), indent=1)
                            violations.append((f"VIOLATION property={pid} replay={path}", summary[:1]))
                        else:
                            inconclusive.append(f"{target} {bname} job {j}: rc={rc} {kind_of}")
                legs.append({"target": target, "build": bname, "processes": jobs, "runs_per_process": n_runs, "executions": execs,
                             "edges_covered": cov, "features": ft, "corpus_files_at_end": len(os.listdir(cdir)),
                             "seed_corpus": "repository test programs" if kind == "text" else "64 random choice tapes",
                             "input": "raw UTF-8 text" if kind == "text" else "choice tape decoded by the property's own generator"})
                if violations:
                    break
            if violations:
                break
    finally:
        shutil.rmtree(work, ignore_errors=True)
    try:
        ev = json.load(open(evidence))
        ev["coverage"]["fuzz_legs"] = legs
        ev["coverage"]["fuzz_executions"] = sum(l["executions"] for l in legs)
        ev["coverage"]["evaluations"] += sum(l["executions"] for l in legs)
        ev["wall_s"] = ev.get("wall_s", 0) + time.time() - t0
        if violations:
            ev["violations"] = ev.get("violations", 0) + len(violations)
        json.dump(ev, open(evidence, "w"), indent=1)
    except Exception as e:
        print("note: evidence not merged:", e)
    for l in legs:
        print(f"fuzz {l['target']} [{l['build']}]: {l['executions']} executions, {l['edges_covered']} edges, corpus {l['corpus_files_at_end']}")
    if violations:
        for v, f in violations[:3]:
            for x in f: print(x)
            print(v)
        sys.exit(1)
    if inconclusive:
        print("INCONCLUSIVE:", "; ".join(inconclusive[:5]))
        sys.exit(2)
    sys.exit(0)

main()
