#[doc(hidden)]
pub mod __private229 {
    #[doc(hidden)]
    pub use crate::private::*;
}
