; ModuleID = 'probe1.1b5804d105718845-cgu.0'
source_filename = "probe1.1b5804d105718845-cgu.0"
target datalayout = "e-m:e-p270:32:32-p271:32:32-p272:64:64-i64:64-i128:128-f80:128-n8:16:32:64-S128"
target triple = "x86_64-unknown-linux-gnu"

@alloc_f93507f8ba4b5780b14b2c2584609be0 = private unnamed_addr constant [8 x i8] c"\00\00\00\00\00\00\F0?", align 8
@alloc_ef0a1f828f3393ef691f2705e817091c = private unnamed_addr constant [8 x i8] c"\00\00\00\00\00\00\00@", align 8

; probe1::probe
; Function Attrs: nonlazybind uwtable
define void @_RNvCs2ly8eUAtcdl_6probe15probe() unnamed_addr #0 {
start:
; call <f64>::total_cmp
  %_1 = call i8 @_RNvMNtCsanpdEcSfypT_4core3f64d9total_cmpCs2ly8eUAtcdl_6probe1(ptr align 8 @alloc_f93507f8ba4b5780b14b2c2584609be0, ptr align 8 @alloc_ef0a1f828f3393ef691f2705e817091c) #3
  ret void
}

; <f64>::total_cmp
; Function Attrs: inlinehint nonlazybind uwtable
define internal i8 @_RNvMNtCsanpdEcSfypT_4core3f64d9total_cmpCs2ly8eUAtcdl_6probe1(ptr align 8 %self, ptr align 8 %other) unnamed_addr #1 {
start:
  %_6 = alloca [8 x i8], align 8
  %_3 = alloca [8 x i8], align 8
  %_5 = load double, ptr %self, align 8
  %_4 = bitcast double %_5 to i64
  store i64 %_4, ptr %_3, align 8
  %_8 = load double, ptr %other, align 8
  %_7 = bitcast double %_8 to i64
  store i64 %_7, ptr %_6, align 8
  %_13 = load i64, ptr %_3, align 8
  %_12 = ashr i64 %_13, 63
  %_10 = lshr i64 %_12, 1
  %0 = load i64, ptr %_3, align 8
  %1 = xor i64 %0, %_10
  store i64 %1, ptr %_3, align 8
  %_18 = load i64, ptr %_6, align 8
  %_17 = ashr i64 %_18, 63
  %_15 = lshr i64 %_17, 1
  %2 = load i64, ptr %_6, align 8
  %3 = xor i64 %2, %_15
  store i64 %3, ptr %_6, align 8
  %4 = load i64, ptr %_3, align 8
  %5 = load i64, ptr %_6, align 8
  %_0 = call i8 @llvm.scmp.i8.i64(i64 %4, i64 %5)
  ret i8 %_0
}

; Function Attrs: nocallback nocreateundeforpoison nofree nosync nounwind speculatable willreturn memory(none)
declare range(i8 -1, 2) i8 @llvm.scmp.i8.i64(i64, i64) #2

attributes #0 = { nonlazybind uwtable "probe-stack"="inline-asm" "target-cpu"="x86-64" }
attributes #1 = { inlinehint nonlazybind uwtable "probe-stack"="inline-asm" "target-cpu"="x86-64" }
attributes #2 = { nocallback nocreateundeforpoison nofree nosync nounwind speculatable willreturn memory(none) }
attributes #3 = { inlinehint }

!llvm.module.flags = !{!0, !1}
!llvm.ident = !{!2}

!0 = !{i32 8, !"PIC Level", i32 2}
!1 = !{i32 2, !"RtLibUseGOT", i32 1}
!2 = !{!"rustc version 1.97.0-nightly (ad3a598ca 2026-05-03)"}
