#[doc(hidden)]
pub mod __private229 {
    #[doc(hidden)]
    pub use crate::private::*;
}
use serde_core::__private229 as serde_core_private;
