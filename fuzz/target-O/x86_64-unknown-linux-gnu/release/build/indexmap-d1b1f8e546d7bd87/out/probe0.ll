; ModuleID = 'probe0.6c2779e547e7c6b5-cgu.0'
source_filename = "probe0.6c2779e547e7c6b5-cgu.0"
target datalayout = "e-m:e-p270:32:32-p271:32:32-p272:64:64-i64:64-i128:128-f80:128-n8:16:32:64-S128"
target triple = "x86_64-unknown-linux-gnu"

!llvm.module.flags = !{!0, !1}
!llvm.ident = !{!2}

!0 = !{i32 8, !"PIC Level", i32 2}
!1 = !{i32 2, !"RtLibUseGOT", i32 1}
!2 = !{!"rustc version 1.97.0-nightly (ad3a598ca 2026-05-03)"}
