#![no_main]
//! structured target: VCHECK_FUZZ_PROP=Cxx selects the property whose generator decodes the bytes
use libfuzzer_sys::{fuzz_target, Corpus};
use std::sync::OnceLock;

static PROP: OnceLock<String> = OnceLock::new();

fuzz_target!(|data: &[u8]| -> Corpus {
    let prop = PROP.get_or_init(|| std::env::var("VCHECK_FUZZ_PROP").unwrap_or_else(|_| "C03".into()));
    if vcheck::fuzzapi::tape(prop, data) {
        Corpus::Keep
    } else {
        Corpus::Reject
    }
});
