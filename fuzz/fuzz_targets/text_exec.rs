#![no_main]
use libfuzzer_sys::{fuzz_target, Corpus};

fuzz_target!(|data: &[u8]| -> Corpus {
    if vcheck::fuzzapi::text_exec(data) {
        Corpus::Keep
    } else {
        Corpus::Reject
    }
});
