#![no_main]
use libfuzzer_sys::{fuzz_target, Corpus};

fuzz_target!(|data: &[u8]| -> Corpus {
    if vcheck::fuzzapi::text_lint(data) {
        Corpus::Keep
    } else {
        Corpus::Reject
    }
});
