#!/bin/sh
# Build the engine (dev + release profile) offline from files on disk.
set -e
cd /verif/engine
export CARGO_NET_OFFLINE=true
unset RUSTFLAGS
cargo build -q --bin vcheck
cargo build -q --bin vcheck --release
echo "setup ok"
