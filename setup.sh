#!/bin/sh
# Build the engine (dev + release profile) and the real rrss binary (for C20) offline from files on disk.
set -e
export CARGO_NET_OFFLINE=true
unset RUSTFLAGS
cd /verif/engine
cargo build -q --bin vcheck
cargo build -q --bin vcheck --release
cd /repo
cargo build -q --offline --bin rrss --target-dir /verif/target/cli
cargo build -q --offline --bin rrss --target-dir /verif/target/cli --release
echo "setup ok"
