//! "Poison" interludes: things done on a shard's thread *between* generated cases whose results are thrown away.
//!
//! Every listed property is stated for a program (text, input) without any qualification about what the process did
//! before, so the result of a case must not depend on what ran earlier on the same thread.  The generated cases of a
//! shard already run one after another on one thread; the interludes add the kinds of history the case generators of a
//! given property do not produce themselves: runs that die with a runtime error deep inside calls and loops, output
//! and input streams that fail at the first byte or in the middle of a line, rejected texts, lint runs.  Anything such
//! a run leaves behind (statics, thread-locals, lazily filled tables, reused buffers) then meets the next cases, which
//! are judged by their usual oracle; the harness turns a failure that only shows after a history into a replay that
//! carries the history (see `harness::run`).
//!
//! The interludes are a pure function of their index; none of them may unwind (they run under the usual fuel and are
//! all tiny).

use crate::run::{exec_with, guarded, parse_rrss, Limits};
use std::io::{Read, Write};

struct FailW {
    accepted: usize,
    fail_at: Option<usize>,
}

impl Write for FailW {
    fn write(&mut self, buf: &[u8]) -> std::io::Result<usize> {
        if buf.is_empty() {
            return Ok(0);
        }
        let room = self.fail_at.map_or(usize::MAX, |k| k.saturating_sub(self.accepted));
        if room == 0 {
            return Err(std::io::Error::new(std::io::ErrorKind::BrokenPipe, "injected write fault (interlude)"));
        }
        let n = buf.len().min(room);
        self.accepted += n;
        Ok(n)
    }
    fn flush(&mut self) -> std::io::Result<()> {
        Ok(())
    }
}

struct FailR {
    data: Vec<u8>,
    pos: usize,
    fail_at: Option<usize>,
}

impl Read for FailR {
    fn read(&mut self, buf: &mut [u8]) -> std::io::Result<usize> {
        if buf.is_empty() {
            return Ok(0);
        }
        if let Some(k) = self.fail_at {
            if self.pos >= k {
                return Err(std::io::Error::new(std::io::ErrorKind::Other, "injected read fault (interlude)"));
            }
        }
        let rest = &self.data[self.pos..];
        let mut n = rest.len().min(buf.len());
        if let Some(k) = self.fail_at {
            n = n.min(k - self.pos);
        }
        buf[..n].copy_from_slice(&rest[..n]);
        self.pos += n;
        Ok(n)
    }
}

struct Item {
    what: &'static str,
    src: &'static str,
    stdin: &'static [u8],
    wfail: Option<usize>,
    rfail: Option<usize>,
    lint: bool,
}

const fn run_err(what: &'static str, src: &'static str) -> Item {
    Item { what, src, stdin: b"", wfail: None, rfail: None, lint: false }
}
const fn wfault(what: &'static str, src: &'static str, at: usize) -> Item {
    Item { what, src, stdin: b"", wfail: Some(at), rfail: None, lint: false }
}
const fn rfault(what: &'static str, src: &'static str, stdin: &'static [u8], at: Option<usize>) -> Item {
    Item { what, src, stdin, wfail: None, rfail: at, lint: false }
}
const fn lint(what: &'static str, src: &'static str) -> Item {
    Item { what, src, stdin: b"", wfail: None, rfail: None, lint: true }
}

const ITEMS: &[Item] = &[
    // ---- runtime errors with calls, loops and blocks still active
    run_err("unknown name 300 calls deep", "Descent takes Level\nIf Level is 0\nSay Ghost\n\nKnock Level down\nGive back Descent taking Level\n\nSay Descent taking 300\n"),
    run_err("unknown name 40 calls deep", "Descent takes Level\nIf Level is 0\nSay Ghost\n\nKnock Level down\nGive back Descent taking Level\n\nSay Descent taking 40\n"),
    run_err(
        "error inside if inside loop inside a function, pronoun set",
        "Tommy takes X\nWhile X is greater than 0\nKnock X down\nIf X is 2\nSay it\nSay Ghost\n\n\nGive back X\n\nSay Tommy taking 5\n",
    ),
    run_err("wrong number of arguments inside a nested call", "Inner takes Alpha, Beta\nGive back Alpha plus Beta\n\nOuter takes Alpha\nGive back Inner taking Alpha\n\nSay Outer taking 1\n"),
    run_err("calling something that is not a function", "Let X be 5\nSay \"before\"\nSay X taking 1\n"),
    run_err("error while evaluating the argument of a nested call", "Twice takes Alpha\nGive back Alpha plus Alpha\n\nSay Twice taking Twice taking Ghost\n"),
    run_err(
        "many variables and functions alive when the error happens",
        "Let Alpha be 1\nLet Beta be \"two\"\nRock Gamma with 1, 2, 3\nLet Delta at \"key\" be 4\nFirst takes X\nGive back X\n\nSecond takes X, Y\nGive back X with Y\n\nSay Second taking Alpha, Beta\nWhile Alpha is less than 4\nBuild Alpha up\nIf Alpha is 3\nCast \"zz\" into Epsilon\n\n\nSay \"unreachable\"\n",
    ),
    // ---- failed transformations
    run_err("join: keyed non-string entry after strings", "Rock Band with \"left\", \"over\"\nLet Band at \"k\" be 5\nJoin Band into X\nSay X\n"),
    run_err("join: non-string element in the middle", "Rock Band with \"ab\", 5, \"cd\"\nJoin Band into X with \"-\"\nSay X\n"),
    run_err("split with a delimiter of the wrong kind", "Cut \"a,b,c\" into X with 5\nSay X\n"),
    run_err("cast with an invalid radix", "Cast \"zz\" into X with 99\nSay X\n"),
    run_err("cast of an unparsable number", "Let X be \"12abc\"\nCast X\nSay X\n"),
    run_err("cast of an invalid code point", "Cast 55555555555 into X\nSay X\n"),
    run_err("rounding a string", "Let X be \"x\"\nTurn up X\nSay X\n"),
    run_err("indexing a number", "Let X be 5\nSay X at 3\n"),
    run_err("popping a number", "Let X be 5\nSay roll X\n"),
    run_err("arithmetic on an array and a string after output", "Rock Alpha with 1, 2\nSay Alpha\nSay Alpha minus \"x\"\n"),
    // ---- output faults
    wfault("say of a number, sink fails at once", "Say 7 times 6\nSay 8\n", 0),
    wfault("say of a number, sink fails after one byte", "Say 7 times 6\nSay 8\n", 1),
    wfault("say of a negative fraction, sink fails before the newline", "Say 0 minus 12.5\n", 5),
    wfault("say of a string, sink fails at once", "Say \"hello world\"\n", 0),
    wfault("say of a string, sink fails in the middle", "Say \"hello world\"\nSay \"again\"\n", 5),
    wfault("third say fails", "Say \"one\"\nSay \"two\"\nSay \"three\"\nSay \"four\"\n", 8),
    wfault("say of an array fails", "Rock Alpha with 1, 2, 3\nSay Alpha\n", 0),
    wfault("say of a boolean and of null fail", "Say 1 is 1\nSay nothing\n", 2),
    wfault("say inside a function inside a loop fails", "Echo takes X\nSay X\nGive back X\n\nLet N be 0\nWhile N is less than 5\nBuild N up\nPut Echo taking N into Y\n\n", 4),
    wfault(
        "a long line fails midway",
        "Let X be \"0123456789abcdef0123456789abcdef0123456789abcdef0123456789abcdef\"\nLet X be X plus X\nLet X be X plus X\nLet X be X plus X\nLet X be X plus X\nLet X be X plus X\nSay X\n",
        1500,
    ),
    // ---- input faults
    rfault("input is not UTF-8", "Listen to X\nSay X\n", b"\xff\xfe\n", None),
    rfault("reader fails at once", "Listen to X\nSay X\n", b"abcdef\nsecond\n", Some(0)),
    rfault("reader fails in the middle of a line", "Listen to X\nSay X\nListen to Y\nSay Y\n", b"abcdef\nsecond\n", Some(3)),
    rfault("reader fails on the second line", "Listen to X\nSay X\nListen to Y\nSay Y\n", b"abcdef\nsecond\n", Some(9)),
    rfault("listen without destination fails", "Listen\nSay 1\n", b"zz\n", Some(1)),
    // ---- rejected texts
    run_err("parse: unterminated string", "Say \"unterminated\n"),
    run_err("parse: unterminated comment", "Say 1 (no end\nSay 2\n"),
    run_err("parse: missing operand", "Let X be 5 plus\nSay X\n"),
    run_err("parse: missing destination", "Put 5 into\n"),
    run_err("parse: function without parameters", "Tommy takes\nSay 1\n\n"),
    run_err("parse: bad token inside nested blocks", "If 1\nWhile 2\nIf 3\nSay 1 2\n\n\n\n"),
    run_err("parse: error on line 7 after a function", "First takes X\nGive back X\n\nSay First taking 1\nSay 2\nSay 3\nPut into X\n"),
    run_err("parse: poetic literal gone wrong", "X is \nSay X\n"),
    // ---- lint runs
    lint("lint: boring assignments and a missed pronoun", "Put \"x\" into Tommy\nPut \"x\" into Tommy\nLet X be 5\nSay X\nLet Y be 1 plus 2\n"),
    lint("lint: nothing to report", "Listen to X\nSay X\n"),
    // ---- ordinary successful runs (tables keyed by line, call site or name that outlive a run)
    run_err("success: loops without jumps on lines 1-6", "Let N be 0\nWhile N is less than 3\nBuild N up\nSay N\n\nUntil N is 0\nKnock N down\n\nSay N\n"),
    run_err("success: loops with break and continue on lines 2-9", "Let N be 0\nWhile N is less than 9\nBuild N up\nIf N is 2\nContinue\n\nIf N is 5\nBreak\n\nSay N\n\nSay N\n"),
    run_err("success: functions F and G", "First takes X\nGive back X plus 1\n\nSecond takes X, Y\nGive back First taking X plus Y\n\nSay Second taking 1, 2\nSay First taking 5\n"),
    run_err("success: dictionary, split, join, cast", "Let Dict at \"a\" be 1\nLet Dict at \"b\" be 2\nSay Dict\nCut \"x-y-z\" into P with \"-\"\nJoin P into Q with \"+\"\nSay Q\nCast \"ff\" into R with 16\nSay R\n"),
];

const DYNAMIC: u32 = 5;
pub const KINDS: u32 = ITEMS.len() as u32 + DYNAMIC;

/// interludes whose text is built rather than written out: (what, text, lint instead of run)
fn dynamic(k: u32) -> (&'static str, String, bool) {
    match k {
        0 => ("a poetic literal of 330 words is evaluated, then printed", format!("Tommy is {}\nSay Tommy\nGina is a rockstar\nSay Gina at 7\n", vec!["a"; 330].join(" ")), false),
        1 => {
            // constant folding gives up on a 400-link chain that starts with a variable
            let chain = vec!["1"; 400].join(" plus ");
            ("lint: a 400-link sum that starts with a variable", format!("Put X plus {} into Y\nPut Y into X\n", chain), true)
        }
        2 => {
            let mut s = String::new();
            for i in 0..60 {
                s.push_str(if i % 2 == 0 { "If 1\n" } else { "While 1\n" });
            }
            s.push_str("Say Ghost\n");
            ("unknown name inside 60 nested blocks", s, false)
        }
        3 => {
            let mut s = String::from("Let X be 0\n");
            for _ in 0..120 {
                s.push_str("Put X plus 1 into Y\n");
            }
            ("lint: 120 assignments that do not fold", s, true)
        }
        _ => {
            let mut s = String::from("Let Total be 0\nLet N be 0\nWhile N is less than 3000\nBuild N up\nLet Total be Total plus N\n\nSay Total\nSay Total at 1\n");
            s.push_str("Say Ghost\n");
            ("a loop of 3000 passes, then an error", s, false)
        }
    }
}

fn item(kind: u32) -> (&'static str, String, &'static [u8], Option<usize>, Option<usize>, bool) {
    let k = kind % KINDS;
    if (k as usize) < ITEMS.len() {
        let it = &ITEMS[k as usize];
        (it.what, it.src.to_string(), it.stdin, it.wfail, it.rfail, it.lint)
    } else {
        let (what, src, lint) = dynamic(k - ITEMS.len() as u32);
        (what, src, b"", None, None, lint)
    }
}

pub fn describe(kind: u32) -> &'static str {
    item(kind).0
}

/// run interlude `kind`; true when it unwound (which the caller treats like any other unwind on the thread)
pub fn run(kind: u32) -> bool {
    let (_, src, stdin, wfail, rfail, lint) = item(kind);
    let before = crate::run::unwinds();
    if let crate::run::Caught::Done(Ok(tree)) = parse_rrss(&src, Some(20_000_000)) {
        if lint {
            let _ = guarded(|| rrss::linter::standard_linter().run(&tree).diags.len());
        } else {
            let w = FailW { accepted: 0, fail_at: wfail };
            let r = FailR { data: stdin.to_vec(), pos: 0, fail_at: rfail };
            let _ = exec_with(&tree, r, w, Limits { exec_fuel: Some(200_000), alloc_cap: Some(4_000_000) });
        }
    }
    crate::run::unwinds() != before
}

/// what each interlude does when run alone (for `vcheck POISON`, used to check the list by eye)
pub fn self_test() -> Vec<String> {
    let mut out = vec![];
    for i in 0..KINDS {
        let (what, src, stdin, wfail, rfail, lint) = item(i);
        let t0 = std::time::Instant::now();
        let line = match parse_rrss(&src, Some(20_000_000)) {
            crate::run::Caught::Done(Ok(tree)) => {
                if lint {
                    match guarded(|| rrss::linter::standard_linter().run(&tree).diags.len()) {
                        crate::run::Caught::Done(n) => format!("lint: {} findings", n),
                        o => format!("lint: {:?}", o),
                    }
                } else {
                    let w = FailW { accepted: 0, fail_at: wfail };
                    let r = FailR { data: stdin.to_vec(), pos: 0, fail_at: rfail };
                    format!("run: {:?}", exec_with(&tree, r, w, Limits { exec_fuel: Some(200_000), alloc_cap: Some(4_000_000) }))
                }
            }
            crate::run::Caught::Done(Err(e)) => format!("rejected: {}", e.code),
            o => format!("parse: {:?}", o.map(|_| ())),
        };
        out.push(format!("{:2} {:60} {} [{:?}]", i, what, line, t0.elapsed()));
    }
    out
}
