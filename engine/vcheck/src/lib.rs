//! vcheck as a library: the property modules, the generic runner and the guarded rrss runners, shared by the
//! `vcheck` binary and by the cargo-fuzz targets in /verif/fuzz.
pub mod adapt;
pub mod diff;
pub mod fuzzapi;
pub mod harness;
pub mod lintexp;
pub mod poison;
pub mod props;
pub mod run;
pub mod walk;

use std::sync::Arc;

pub fn run_prop<P: harness::Prop + 'static>(p: P, cfg: harness::Config) -> i32 {
    harness::run(Arc::new(p), cfg)
}
