//! C14 — equality, ordering and logic obey their algebraic laws on all values.
//! Oracle: the laws themselves (metamorphic relations between runs of rrss); no model.

use crate::harness::{Outcome, Prop, Tier};
use crate::run::{exec_rrss, fnv_str, guarded, parse_rrss, Caught, Limits};
use engine_core::ast::*;
use engine_core::gen::values::gen_uval;
use engine_core::model::V;
use engine_core::render::render_canonical;
use engine_core::tape::Tape;
use engine_core::universe::{universe, UVal};
use rrss::exec::val::Val;
use serde::{Deserialize, Serialize};
use serde_json::{json, Value};
use std::cmp::Ordering;

pub struct C14;

#[derive(Clone, Debug, Serialize, Deserialize)]
pub enum Case {
    Pair { a: UVal, b: UVal },
    BuildKnock { a: UVal, n: u32 },
}

fn prelude(a: &UVal, b: Option<&UVal>) -> String {
    let mut s = a.stmts(&simple("va"), &simple("scratch"));
    if let Some(b) = b {
        s.extend(b.stmts(&simple("vb"), &simple("scratch")));
    }
    render_canonical(&Program::single(s))
}

/// run a text; Ok(stdout lines, errored?) or Err(failure message)
fn run_text(src: &str) -> Result<(Vec<String>, bool), String> {
    let tree = match parse_rrss(src, Some(crate::run::parse_fuel_for(src))) {
        Caught::Done(Ok(t)) => t,
        other => return Err(format!("law program does not parse: {:?}\n{}", other.map(|r| r.map(|_| ())), src)),
    };
    let (c, out) = exec_rrss(&tree, b"", Limits { exec_fuel: Some(1000), alloc_cap: Some(4_000_000) });
    match c {
        Caught::Done(()) => Ok((out.stdout_str().lines().map(String::from).collect(), !out.ok())),
        Caught::Panic(p) => Err(format!("rrss panicked: {}\n{}", p, src)),
        // outside the resource bound (e.g. a string repeated 1e300 times): both sides of a law end up here alike
        Caught::Budget(_) => Ok((vec!["<resource bound>".to_string()], true)),
    }
}

fn to_val(v: &V) -> Val {
    match v {
        V::Myst => Val::Undefined,
        V::Null => Val::Null,
        V::Bool(b) => Val::Boolean(*b),
        V::Num(n) => Val::Number(*n),
        V::Str(s) => Val::from(s.as_str()),
        V::Arr(a) => {
            let mut x = Val::Undefined;
            x.push(a.seq.iter().map(to_val).collect::<Vec<_>>().into_iter()).unwrap();
            for (k, val) in &a.dict {
                let kv = match k {
                    engine_core::model::Key::Myst => Val::Undefined,
                    engine_core::model::Key::Null => Val::Null,
                    engine_core::model::Key::Bool(b) => Val::Boolean(*b),
                    engine_core::model::Key::Str(s) => Val::from(s.as_str()),
                };
                *x.index_or_insert(&kv).unwrap() = to_val(val);
            }
            x
        }
    }
}

fn tf(s: &str) -> Result<bool, String> {
    match s {
        "true" => Ok(true),
        "false" => Ok(false),
        o => Err(format!("expected true/false, got {:?}", o)),
    }
}

fn check_pair(a: &UVal, b: &UVal) -> Result<u64, String> {
    let pre = prelude(a, Some(b));
    let mut digest = 0u64;
    // ---- laws that never involve an error
    let p0 = format!(
        "{}say va is vb\nsay vb is va\nsay va isnt vb\nsay va is not vb\nsay va ain't vb\nsay not va\nsay not vb\nif va\nsay \"T\"\nelse\nsay \"F\"\n\nif vb\nsay \"T\"\nelse\nsay \"F\"\n\nsay va and vb\nsay va or vb\nsay va nor vb\nsay vb and va\nsay vb or va\nsay vb nor va\n",
        pre
    );
    let (l, errd) = run_text(&p0)?;
    if errd || l.len() != 15 {
        return Err(format!("equality/logic program failed or printed {} lines (expected 15): {:?}\n{}", l.len(), l, p0));
    }
    digest ^= fnv_str(&l.join("|"));
    let is_ab = tf(&l[0])?;
    let is_ba = tf(&l[1])?;
    if is_ab != is_ba {
        return Err(format!("`a is b` = {} but `b is a` = {}\n{}", is_ab, is_ba, p0));
    }
    for (i, what) in [(2, "a isnt b"), (3, "a is not b"), (4, "a ain't b")] {
        if tf(&l[i])? != !is_ab {
            return Err(format!("`{}` = {} is not the negation of `a is b` = {}\n{}", what, l[i], is_ab, p0));
        }
    }
    let ta = l[7] == "T";
    let tb = l[8] == "T";
    if tf(&l[5])? != !ta || tf(&l[6])? != !tb {
        return Err(format!("`not` disagrees with truthiness observed by `if`: {:?}\n{}", l, p0));
    }
    let want = [ta && tb, ta || tb, !(ta || tb), tb && ta, tb || ta, !(tb || ta)];
    for (i, w) in want.iter().enumerate() {
        if tf(&l[9 + i])? != *w {
            return Err(format!("and/or/nor line {} = {} but truthiness says {}: {:?}\n{}", i, l[9 + i], w, l, p0));
        }
    }
    // ---- equality does not depend on how a value came to be: a copy, the variable itself and a value built separately
    // compare alike (an untouched copy may share its storage with the original; that must not show)
    let p1 = format!("{}put va into vc\nsay va is vc\nsay va isnt vc\nsay va is va\nsay va isnt va\nsay vc is va\nlet vd be vc\nsay vd is va\nsay vd is not va\n", pre);
    let (l1, errd) = run_text(&p1)?;
    if errd || l1.len() != 7 {
        return Err(format!("copy-equality program failed or printed {} lines (expected 7): {:?}\n{}", l1.len(), l1, p1));
    }
    digest ^= fnv_str(&l1.join("|"));
    let is_copy = tf(&l1[0])?;
    for (i, what) in [(2, "a is a"), (4, "copy is a"), (5, "copy of copy is a")] {
        if tf(&l1[i])? != is_copy {
            return Err(format!("`{}` = {} but `a is <copy of a>` = {}\n{}", what, l1[i], is_copy, p1));
        }
    }
    for (i, j, what) in [(1, 0, "a isnt <copy>"), (3, 2, "a isnt a"), (6, 5, "<copy of copy> is not a")] {
        if tf(&l1[i])? == tf(&l1[j])? {
            return Err(format!("`{}` = {} is not the negation of the matching `is` = {}\n{}", what, l1[i], l1[j], p1));
        }
    }
    if a.label == b.label && is_copy != is_ab {
        return Err(format!("a value equals its copy ({}) but not an equal value built separately ({}), or the reverse\n{}\n--- and\n{}", is_copy, is_ab, p1, p0));
    }
    // ---- a list after and / or / nor folds left to right: the one-statement form equals the step-by-step form
    for op in ["and", "or", "nor"] {
        let p2 = format!(
            "{pre}say va {op} vb, va\nput va {op} vb into tmp\nsay tmp {op} va\nsay vb {op} va, va, vb\nput vb {op} va into tmp\nput tmp {op} va into tmp\nsay tmp {op} vb\n",
            pre = pre,
            op = op
        );
        let (l2, errd) = run_text(&p2)?;
        if errd || l2.len() != 4 {
            return Err(format!("list-fold program failed or printed {} lines (expected 4): {:?}\n{}", l2.len(), l2, p2));
        }
        digest ^= fnv_str(&l2.join("|"));
        if l2[0] != l2[1] || l2[2] != l2[3] {
            return Err(format!("`{}` over a list is not the left-to-right fold of its links: {:?}\n{}", op, l2, p2));
        }
    }
    // ---- ordering: one program per comparison (it may be a runtime error)
    let ord = |expr: &str| -> Result<Option<bool>, String> {
        let p = format!("{}say {}\n", pre, expr);
        let (l, errd) = run_text(&p)?;
        if errd {
            if !l.is_empty() {
                return Err(format!("comparison `{}` printed {:?} and then failed\n{}", expr, l, p));
            }
            let _ = &l;
            Ok(None)
        } else if l.len() == 1 {
            Ok(Some(tf(&l[0])?))
        } else {
            Err(format!("comparison `{}` printed {:?}\n{}", expr, l, p))
        }
    };
    let lt = ord("va < vb")?;
    let gt_rev = ord("vb > va")?;
    let le = ord("va <= vb")?;
    let ge_rev = ord("vb >= va")?;
    let ge = ord("va >= vb")?;
    let w_lt = ord("va is smaller than vb")?;
    let w_ge_rev = ord("vb is as big as va")?;
    digest ^= fnv_str(&format!("{:?}{:?}{:?}{:?}{:?}", lt, gt_rev, le, ge_rev, ge));
    if lt != gt_rev {
        return Err(format!("`a < b` = {:?} but `b > a` = {:?} (None = runtime error)\n{}", lt, gt_rev, pre));
    }
    if le != ge_rev {
        return Err(format!("`a <= b` = {:?} but `b >= a` = {:?} (None = runtime error)\n{}", le, ge_rev, pre));
    }
    if lt.is_none() != le.is_none() || le.is_none() != ge.is_none() {
        return Err(format!("ordering is an error for some operators only: < {:?}, <= {:?}, >= {:?}\n{}", lt, le, ge, pre));
    }
    if w_lt != lt || w_ge_rev != ge_rev {
        return Err(format!("worded comparison differs from the symbolic one: {:?}/{:?} vs {:?}/{:?}\n{}", w_lt, w_ge_rev, lt, ge_rev, pre));
    }
    if let (Some(le), Some(ge)) = (le, ge) {
        if (le || ge) && (le && ge) != is_ab {
            return Err(format!("an ordering exists (<= {}, >= {}) but `<= and >=` = {} differs from `is` = {}\n{}", le, ge, le && ge, is_ab, pre));
        }
        if let Some(lt) = lt {
            if lt && !le {
                return Err(format!("`a < b` holds but `a <= b` does not\n{}", pre));
            }
        }
    }
    // ---- compound assignment == plain assignment of the operator expression
    for (op, sym) in [("+", "plus"), ("-", "minus"), ("*", "times"), ("/", "over")] {
        let tail = "say va\nsay va plus 1\nsay \"\" plus va\n";
        // e = one operand, and e = a list of operands (folded left like any list operand)
        for e in ["vb", "vb, vb", "vb, 1, \"c\"", "1, vb", "null, vb, va"] {
            let pa = format!("{}let va be {} {}\n{}", pre, op, e, tail);
            let pb = format!("{}let va be va {} {}\n{}", pre, sym, e, tail);
            let ra = run_text(&pa)?;
            let rb = run_text(&pb)?;
            digest ^= fnv_str(&format!("{:?}", ra));
            if ra != rb {
                return Err(format!("compound assignment differs from its expansion: {:?} vs {:?}\n--- compound:\n{}--- expanded:\n{}", ra, rb, pa, pb));
            }
        }
    }
    // ---- the same law with a pronoun as destination (the referent named just before; the operands name others)
    for (op, sym) in [("+", "plus"), ("-", "minus"), ("*", "times"), ("/", "over")] {
        let tail = "say va\nsay va plus 1\nsay \"\" plus va\nsay vb\nsay vb plus 1\nsay \"\" plus vb\n";
        for e in ["vb", "1, vb", "2"] {
            let pa = format!("{}say \"\" plus va\nlet it be {} {}\n{}", pre, op, e, tail);
            let pb = format!("{}say \"\" plus va\nlet it be it {} {}\n{}", pre, sym, e, tail);
            let ra = run_text(&pa)?;
            let rb = run_text(&pb)?;
            digest ^= fnv_str(&format!("{:?}", ra));
            if ra != rb {
                return Err(format!("compound assignment to a pronoun differs from its expansion: {:?} vs {:?}\n--- compound:\n{}--- expanded:\n{}", ra, rb, pa, pb));
            }
        }
    }
    // ---- the same laws on the library's value type
    let (va, vb) = (to_val(&a.value()), to_val(&b.value()));
    let api = guarded(|| {
        let e1 = va.equals(&vb);
        let e2 = vb.equals(&va);
        let c1 = va.compare(&vb).map_err(|_| ());
        let c2 = vb.compare(&va).map_err(|_| ());
        (e1, e2, c1, c2, va.is_truthy(), vb.is_truthy())
    });
    match api {
        Caught::Done((e1, e2, c1, c2, t1, t2)) => {
            if e1 != e2 {
                return Err(format!("Val::equals is not symmetric for {} / {}", a.label, b.label));
            }
            if e1 != is_ab {
                return Err(format!("Val::equals = {} but the program printed {} for {} is {}", e1, is_ab, a.label, b.label));
            }
            let rev: Result<Option<Ordering>, ()> = c2.map(|o| o.map(|o| o.reverse()));
            if c1 != rev {
                return Err(format!("Val::compare is not antisymmetric for {} / {}: {:?} vs reversed {:?}", a.label, b.label, c1, rev));
            }
            if t1 != ta || t2 != tb {
                return Err(format!("Val::is_truthy disagrees with `if` for {} / {}", a.label, b.label));
            }
            if lt != c1.ok().map(|o| o == Some(Ordering::Less)) {
                return Err(format!("Val::compare = {:?} but `a < b` printed {:?} for {} / {}", c1, lt, a.label, b.label));
            }
        }
        Caught::Panic(p) => return Err(format!("Val API panicked: {}", p)),
        Caught::Budget(b) => return Err(format!("Val API budget {}", b)),
    }
    Ok(digest)
}

fn check_build_knock(a: &UVal, n: u32) -> Result<u64, String> {
    let pre = prelude(a, None);
    let tail = "say va\nsay va plus 1\nsay \"\" plus va\n";
    let ups = vec!["up"; n as usize].join(", ");
    let downs = vec!["down"; n as usize].join(" ");
    let base = run_text(&format!("{}{}", pre, tail))?;
    let bk = run_text(&format!("{}build va {}\nknock va {}\n{}", pre, ups, downs, tail))?;
    let kb = run_text(&format!("{}knock va {}\nbuild va {}\n{}", pre, downs, ups, tail))?;
    let mut step = format!("{}", pre);
    for _ in 0..n {
        step.push_str("build va up\n");
    }
    for _ in 0..n {
        step.push_str("knock va down\n");
    }
    step.push_str(tail);
    let st = run_text(&step)?;
    if base.1 {
        return Err("baseline probe failed".into());
    }
    for (what, r) in [("build^n knock^n", &bk), ("knock^n build^n", &kb), ("n x build, n x knock", &st)] {
        if r != &base {
            return Err(format!("{} does not restore {}: {:?} vs {:?}\n{}", what, a.label, r, base, pre));
        }
    }
    Ok(fnv_str(&format!("{:?}", base)))
}

fn restorable(v: &V) -> bool {
    match v {
        V::Bool(_) => true,
        // every intermediate sum must be exactly representable, otherwise IEEE rounding (not rrss) decides:
        // integers with |n| + 5 < 2^53, or dyadic fractions with <= 20 fractional bits below 2^30.
        // -0 is left out: -0 + 1 - 1 is +0 in IEEE arithmetic, equal but printed differently.
        V::Num(n) => {
            let neg_zero = *n == 0.0 && n.is_sign_negative();
            let int_ok = n.fract() == 0.0 && n.abs() <= 9007199254740000.0;
            let dyadic_ok = (n * 1048576.0).fract() == 0.0 && n.abs() < 1073741824.0;
            n.is_finite() && !neg_zero && (int_ok || dyadic_ok)
        }
        _ => false,
    }
}

impl Prop for C14 {
    type Case = Case;
    fn id(&self) -> &'static str {
        "C14"
    }
    fn rule(&self) -> String {
        format!(
            "exhaustive: all ordered pairs of the {n}-value universe ({p} pairs), each checked through 17 one-purpose programs (equality both ways, isnt / is not / ain't, \
             not vs if, and/or/nor both ways, < / > / <= / >= in both directions and worded, 4 compound assignments vs their expansion) and through \
             rrss::exec::val::Val::{{equals, compare, is_truthy}}; build/knock 1..5 times on every number below 2^53 and boolean of the universe; \
             plus random pairs from the value generators. non-trivial = pair of two different values; distinct by pair",
            n = universe().len(),
            p = universe().len() * universe().len()
        )
    }
    fn assumptions(&self) -> Vec<String> {
        vec!["no reference model: only relations between rrss's own results are checked".into()]
    }
    fn tape_len(&self, _t: Tier) -> usize {
        80
    }
    fn cases(&self, t: Tier) -> usize {
        t.pick(120_000, 3_000_000)
    }
    fn generate(&self, t: &mut Tape) -> Case {
        let a = gen_uval(t);
        if t.chance(1, 8) && restorable(&a.value()) {
            return Case::BuildKnock { a, n: if t.chance(1, 20) { 250 + t.pick(60) as u32 } else { 1 + t.pick(5) as u32 } };
        }
        let b = if t.chance(1, 10) { a.clone() } else { gen_uval(t) };
        Case::Pair { a, b }
    }
    fn fixed_cases(&self, _t: Tier) -> (Vec<Case>, bool) {
        let u = universe();
        let mut v = Vec::new();
        for a in &u {
            for b in &u {
                v.push(Case::Pair { a: a.clone(), b: b.clone() });
            }
        }
        for a in &u {
            if restorable(&a.value()) {
                for n in [1, 2, 3, 4, 5, 255, 256, 300] {
                    v.push(Case::BuildKnock { a: a.clone(), n });
                }
            }
        }
        (v, true)
    }
    fn check(&self, c: &Case) -> Outcome {
        let (r, nt, evals, label) = match c {
            Case::Pair { a, b } => (check_pair(a, b), a.label != b.label, 18, format!("pair:{:?}:{:?}", a.value().kind(), b.value().kind())),
            Case::BuildKnock { a, n } => (check_build_knock(a, *n), true, 4, "build_knock".to_string()),
        };
        match r {
            Ok(d) => {
                let mut o = Outcome::pass().nt(nt).label(label);
                o.digest = d;
                o.evals = evals;
                o
            }
            Err(m) => Outcome::fail(m),
        }
    }
    fn sample(&self, c: &Case) -> Value {
        match c {
            Case::Pair { a, b } => json!({"a": a.label, "b": b.label, "prelude": prelude(a, Some(b))}),
            Case::BuildKnock { a, n } => json!({"build_knock": a.label, "times": n}),
        }
    }
    fn key(&self, c: &Case) -> u64 {
        match c {
            Case::Pair { a, b } => fnv_str(&format!("{}|{}", a.label, b.label)),
            Case::BuildKnock { a, n } => fnv_str(&format!("bk{}|{}", a.label, n)),
        }
    }
}
