//! C17 — the constant folder only reports values the interpreter would compute.
//! Oracle: differential between two parts of rrss (folders vs interpreter) + the class of the generated expression.

use crate::harness::{Outcome, Prop, Tier};
use crate::run::{exec_rrss, fnv_str, guarded, parse_rrss, Caught, Limits as RLimits};
use engine_core::ast::*;
use engine_core::gen::consts::{constant_expr, constant_value, is_constant_shape, unknown_expr};
use engine_core::gen::names;
use engine_core::gen::poetic::{literal, PoeticCfg};
use engine_core::gen::syntax::{Ctx, SynCfg, SynGen, STRS};
use engine_core::gen::values::gen_uval;
use engine_core::render::{render, RenderOpts};
use engine_core::tape::Tape;
use rrss::analysis::tools::{NumericConstantFolder, SimpleStringConstantFolder};
use rrss::analysis::visit::VisitExpr;
use rrss::frontend::ast as r;
use serde::{Deserialize, Serialize};
use serde_json::{json, Value};

pub struct C17;

#[derive(Clone, Copy, Debug, Serialize, Deserialize, PartialEq)]
pub enum Class {
    Constant,
    Unknown,
    Other,
    StringLiteral,
}

#[derive(Clone, Debug, Serialize, Deserialize)]
pub enum Case {
    Expr { prelude: Vec<Stmt>, class: Class, expr: Expr, spelling: Vec<u32> },
    Poetic { prelude: Vec<Stmt>, elems: Vec<PoeticElem>, spelling: Vec<u32> },
    /// an expression as text (numbers, operators, separators in any arrangement the parser accepts): shapes the tree
    /// generator leaves out because the grammar's reading of them is not documented (lists opening inside lists)
    Text { expr: String },
}

fn text_expr(t: &mut Tape) -> String {
    let nums = ["1", "2", "3", "4", "5", "6", "7", "10", "0.5", "0", "100", "2.5"];
    let ops = [" + ", " - ", " * ", " / ", " plus ", " minus ", " times ", " over ", " with ", " of ", " without ", " between "];
    let seps = [", ", ", ", ", and ", " & ", ", ", " 'n' "];
    let n = 2 + t.pick(9);
    let mut s = String::new();
    for i in 0..n {
        if i > 0 {
            // an operator or a list separator between operands; separators need an operator somewhere before them
            if i >= 2 && t.chance(2, 5) {
                s.push_str(*t.choose(&seps));
            } else {
                s.push_str(*t.choose(&ops));
            }
        }
        match t.pick(12) {
            0 => s.push('-'),
            1 => s.push_str("not "),
            2 => s.push_str("- -"),
            _ => {}
        }
        if t.chance(1, 15) {
            s.push_str("the unknown");
        } else {
            s.push_str(*t.choose(&nums));
        }
    }
    s
}

fn prelude(t: &mut Tape, vars: &[Name]) -> Vec<Stmt> {
    // "whatever the rest of the program does": every variable gets some value, one is an array, one function exists
    let mut s = vec![];
    let scratch = simple("scratchvar");
    for v in vars.iter().take(3) {
        let u = gen_uval(t);
        s.extend(u.stmts(v, &scratch));
    }
    s.push(Stmt::Push { array: pvar(&vars[3]), value: Some(PushRhs::List(vec![num(4.0), num(5.0), num(6.0)])) });
    s.push(Stmt::Function { name: vars[4].clone(), params: vec![vars[5].clone()], body: vec![Stmt::Return { value: var(&vars[5]) }] });
    s
}

fn last_output(tree: &r::Program) -> Option<&r::Expression> {
    let b = tree.code.last()?;
    if let r::Block::NonEmpty(stmts) = b {
        if let Some(r::Statement::Output(o)) = stmts.last() {
            return Some(&o.value);
        }
    }
    None
}

const OPTS: RenderOpts = RenderOpts::CLEAN;

impl Prop for C17 {
    type Case = Case;
    fn id(&self) -> &'static str {
        "C17"
    }
    fn rule(&self) -> String {
        "expressions in labelled classes, each printed by `say` after a random prelude (variables of random kinds, an array, a function): constant (number literals incl. 0, fractions, huge, infinite; unary minus; + - * / \
         with list operands, nesting <= 4; inf/NaN/-0 results), unknown (same shapes with >= 1 variable, pronoun, element, call or roll), other (fully random grammar expressions: other literal kinds, not, comparisons, logic; and constant expressions with a few leaves perturbed: `not` stacked 1-3 deep, other literal kinds), \
         plain string literals; poetic number literals as right-hand sides; and expressions as raw text (numbers, every operator spelling, every list separator, unary minus / not in any arrangement the parser accepts, incl. lists that open inside lists). Folder says value => executing prints exactly value.to_string(); constant => must fold to the independently computed IEEE value; unknown => must not fold. \
         non-trivial = >= 1 operator (or a poetic literal with >= 2 words); distinct by case"
            .into()
    }
    fn assumptions(&self) -> Vec<String> {
        vec![
            "constant class values are recomputed independently with IEEE f64 arithmetic, left fold over list operands".into(),
            "poetic literals: only agreement between folder and interpreter is demanded here (their value is C11's subject)".into(),
        ]
    }
    fn tape_len(&self, _t: Tier) -> usize {
        400
    }
    fn cases(&self, t: Tier) -> usize {
        t.pick(500_000, 4_000_000)
    }
    fn generate(&self, t: &mut Tape) -> Case {
        let spelling = super::c02::take_spelling(t, 30);
        let vars = names::distinct(t, 6);
        let pre = prelude(t, &vars);
        match t.weighted(&[30, 22, 16, 8, 8, 8, 8]) {
            6 => Case::Text { expr: text_expr(t) },
            5 => Case::Expr { prelude: pre, class: Class::Other, expr: engine_core::gen::consts::near_constant_expr(t, 3), spelling },
            0 => Case::Expr { prelude: pre, class: Class::Constant, expr: constant_expr(t, 4), spelling },
            1 => {
                let vs = vars.clone();
                let mut leaf = move |t: &mut Tape| -> Primary {
                    match t.pick(7) {
                        // a pop is unknown whatever it pops, also a literal (a runtime error when executed)
                        5 => Primary::Pop(Box::new(Primary::Lit(Lit::Num(t.pick(9) as f64)))),
                        6 => Primary::Pop(Box::new(Primary::Lit(Lit::Str("abc".into())))),
                        0 => pvar(&vs[t.pick(3)]),
                        1 => Primary::Ident(Ident::Pronoun),
                        2 => Primary::Subscript(Box::new(pvar(&vs[3])), Box::new(Primary::Lit(Lit::Num(t.pick(3) as f64)))),
                        3 => Primary::Call(vs[4].clone(), vec![num(2.0)]),
                        _ => Primary::Pop(Box::new(pvar(&vs[3]))),
                    }
                };
                let e = unknown_expr(t, 4, &mut leaf);
                Case::Expr { prelude: pre, class: Class::Unknown, expr: e, spelling }
            }
            2 => {
                let mut g = SynGen::new(t, SynCfg { name_pool: 4, max_expr_depth: 4, ..SynCfg::default() });
                g.names = vars[..4].to_vec();
                g.funcs = vec![vars[4].clone()];
                let e = g.expr(Ctx::new(4));
                let class = if is_constant_shape(&e) { Class::Constant } else { Class::Other };
                Case::Expr { prelude: pre, class, expr: e, spelling }
            }
            3 => Case::Expr { prelude: pre, class: Class::StringLiteral, expr: strlit(*t.choose(STRS)), spelling },
            _ => Case::Poetic { prelude: pre, elems: literal(t, PoeticCfg { orphan_suffix: true, max_digits_each_side: 40 }), spelling },
        }
    }
    fn check(&self, c: &Case) -> Outcome {
        match c {
            Case::Expr { prelude, class, expr, spelling } => {
                let mut stmts = prelude.clone();
                stmts.push(say(expr.clone()));
                let prog = Program::single(stmts);
                if let Err(e) = prog.validate() {
                    return Outcome::discard(format!("generator_bug:{}", e));
                }
                let src = render(&prog, spelling, OPTS).text;
                let tree = match parse_rrss(&src, Some(crate::run::parse_fuel_for(&src))) {
                    Caught::Done(Ok(t)) => t,
                    _ => return Outcome::discard("render_mismatch:rejected"),
                };
                if crate::adapt::program(&tree) != prog {
                    return Outcome::discard("render_mismatch:tree");
                }
                let e = match last_output(&tree) {
                    Some(e) => e,
                    None => return Outcome::discard("render_mismatch:no_output"),
                };
                let folded = match guarded(|| (NumericConstantFolder.visit_expression(e), SimpleStringConstantFolder.visit_expression(e))) {
                    Caught::Done(f) => f,
                    Caught::Panic(p) => return Outcome::fail(format!("constant folder panicked: {}\n{}", p, src)),
                    Caught::Budget(b) => return Outcome::fail(format!("budget {}", b)),
                };
                let (nf, sf) = folded;
                let mut o = Outcome::pass();
                o.labels.push(format!("class:{:?}", class));
                match class {
                    Class::Constant => match &nf {
                        Ok(v) => {
                            let want = constant_value(expr).unwrap();
                            if v.value.to_bits() != want.to_bits() && !(v.value.is_nan() && want.is_nan()) {
                                return Outcome::fail(format!("constant expression folds to {} but its IEEE value is {}\n{}", v.value, want, src));
                            }
                        }
                        Err(err) => return Outcome::fail(format!("an expression built solely from number literals, unary minus and + - * / did not fold ({:?})\n{}", err, src)),
                    },
                    Class::Unknown => {
                        if let Ok(v) = &nf {
                            return Outcome::fail(format!("an expression that reads a variable / pronoun / element / call / roll folded to {}\n{}", v.value, src));
                        }
                        if let Ok(s) = &sf {
                            return Outcome::fail(format!("an expression that reads something folded to the string {:?}\n{}", s.value, src));
                        }
                    }
                    Class::StringLiteral => {
                        if sf.is_err() {
                            return Outcome::fail(format!("a plain string literal did not fold as a string\n{}", src));
                        }
                    }
                    Class::Other => {}
                }
                let expected_line: Option<String> = match (&nf, &sf) {
                    (Ok(v), _) => Some(v.to_string()),
                    (_, Ok(s)) => Some(s.value.clone()),
                    _ => None,
                };
                o.evals = 1;
                if let Some(want) = expected_line {
                    o.labels.push("folded".into());
                    let (c2, out) = exec_rrss(&tree, b"", RLimits { exec_fuel: Some(300), alloc_cap: Some(1_000_000) });
                    match c2 {
                        Caught::Done(()) => {}
                        Caught::Panic(p) => return Outcome::fail(format!("interpreter panicked: {}\n{}", p, src)),
                        Caught::Budget(_) => return Outcome::discard("resource_bound"),
                    }
                    o.evals = 2;
                    let stdout = out.stdout_str();
                    let want_tail = format!("{}\n", want);
                    if out.err.is_some() || !stdout.ends_with(&want_tail) {
                        return Outcome::fail(format!(
                            "the folder reports {:?} but executing the expression prints {:?} (result {:?})\n{}",
                            want,
                            stdout.lines().last(),
                            out.err,
                            src
                        ));
                    }
                    if want == "NaN" || want == "inf" || want == "-inf" || want == "-0" {
                        o.labels.push(format!("value:{}", want));
                    }
                } else {
                    o.labels.push("not_folded".into());
                }
                o.nontrivial = expr.op_count() >= 1;
                if has_list(expr) {
                    o.labels.push("list_operand".into());
                }
                o.digest = fnv_str(&format!("{:?}{:?}", nf.map(|v| v.value.to_bits()), sf.map(|s| s.value)));
                o
            }
            Case::Text { expr } => {
                let src = format!("say {}\n", expr);
                let tree = match parse_rrss(&src, Some(crate::run::parse_fuel_for(&src))) {
                    Caught::Done(Ok(t)) => t,
                    Caught::Done(Err(_)) => return Outcome::discard("text_expression_rejected"),
                    Caught::Panic(p) => return Outcome::fail(format!("parse panicked: {}\n{}", p, src)),
                    Caught::Budget(_) => return Outcome::fail(format!("parse fuel\n{}", src)),
                };
                let e = match last_output(&tree) {
                    Some(e) => e,
                    None => return Outcome::discard("text_expression_not_one_say"),
                };
                let nf = match guarded(|| NumericConstantFolder.visit_expression(e)) {
                    Caught::Done(f) => f,
                    Caught::Panic(p) => return Outcome::fail(format!("constant folder panicked: {}\n{}", p, src)),
                    Caught::Budget(b) => return Outcome::fail(format!("budget {}", b)),
                };
                let mut o = Outcome::pass().label("class:Text");
                o.nontrivial = true;
                o.digest = fnv_str(&format!("{:?}", nf.as_ref().map(|v| v.value.to_bits()).ok()));
                let reads = expr.contains("unknown");
                let has_not = expr.contains("not");
                match &nf {
                    Ok(v) if reads => return Outcome::fail(format!("an expression that reads a variable folded to {}\n{}", v.value, src)),
                    Err(err) if !reads && !has_not => {
                        return Outcome::fail(format!("an expression built solely from number literals, unary minus and + - * / did not fold ({:?})\n{}", err, src))
                    }
                    _ => {}
                }
                if let Ok(v) = &nf {
                    o.labels.push("folded".into());
                    let (c2, out) = exec_rrss(&tree, b"", RLimits { exec_fuel: Some(300), alloc_cap: Some(1_000_000) });
                    match c2 {
                        Caught::Done(()) => {}
                        Caught::Panic(p) => return Outcome::fail(format!("the folder reports {} but executing the expression panics: {}\n{}", v, p, src)),
                        Caught::Budget(_) => return Outcome::discard("resource_bound"),
                    }
                    o.evals = 2;
                    if out.err.is_some() || out.stdout_str() != format!("{}\n", v) {
                        return Outcome::fail(format!("the folder reports {:?} but executing the expression prints {:?} (result {:?})\n{}", v.to_string(), out.stdout_str(), out.err, src));
                    }
                    if expr.matches(',').count() + expr.matches('&').count() >= 2 {
                        o.labels.push("text:several_separators".into());
                    }
                } else {
                    o.labels.push("not_folded".into());
                }
                o
            }
            Case::Poetic { prelude, elems, spelling } => {
                let x = simple("poeticvar");
                let mut stmts = prelude.clone();
                stmts.push(Stmt::PoeticNum { dest: Lhs::Ident(Ident::Name(x.clone())), rhs: PoeticRhs::Literal(elems.clone()) });
                stmts.push(say(var(&x)));
                let prog = Program::single(stmts);
                let src = render(&prog, spelling, OPTS).text;
                let tree = match parse_rrss(&src, Some(crate::run::parse_fuel_for(&src))) {
                    Caught::Done(Ok(t)) => t,
                    _ => return Outcome::discard("render_mismatch:rejected"),
                };
                if crate::adapt::program(&tree) != prog {
                    return Outcome::discard("render_mismatch:tree");
                }
                let rhs = tree.code.last().and_then(|b| match b {
                    r::Block::NonEmpty(s) => s.iter().rev().find_map(|st| match st {
                        r::Statement::PoeticAssignment(r::PoeticAssignment::Number(n)) => Some(&n.rhs),
                        _ => None,
                    }),
                    _ => None,
                });
                let rhs = match rhs {
                    Some(x) => x,
                    None => return Outcome::discard("render_mismatch:no_poetic"),
                };
                let f = match guarded(|| NumericConstantFolder.visit_poetic_number_assignment_rhs(rhs)) {
                    Caught::Done(f) => f,
                    Caught::Panic(p) => return Outcome::fail(format!("constant folder panicked on a poetic literal: {}\n{}", p, src)),
                    Caught::Budget(b) => return Outcome::fail(format!("budget {}", b)),
                };
                let v = match f {
                    Ok(v) => v,
                    Err(e) => return Outcome::fail(format!("a poetic literal did not fold ({:?})\n{}", e, src)),
                };
                let (c2, out) = exec_rrss(&tree, b"", RLimits { exec_fuel: Some(300), alloc_cap: Some(1_000_000) });
                match c2 {
                    Caught::Done(()) => {}
                    Caught::Panic(p) => return Outcome::fail(format!("interpreter panicked: {}\n{}", p, src)),
                    Caught::Budget(_) => return Outcome::discard("resource_bound"),
                }
                let want_tail = format!("{}\n", v);
                if out.err.is_some() || !out.stdout_str().ends_with(&want_tail) {
                    return Outcome::fail(format!("the folder reports {} for a poetic literal but the interpreter prints {:?}\n{}", v, out.stdout_str().lines().last(), src));
                }
                let mut o = Outcome::pass().nt(elems.len() >= 2).label("class:Poetic").label("folded");
                o.evals = 2;
                o.digest = v.value.to_bits();
                o
            }
        }
    }
    fn sample(&self, c: &Case) -> Value {
        match c {
            Case::Expr { class, expr, .. } => json!({ "class": format!("{:?}", class), "expr": engine_core::render::render_expr_canonical(expr) }),
            Case::Poetic { elems, .. } => json!({ "poetic_elems": format!("{:?}", elems.iter().take(8).collect::<Vec<_>>()) }),
            Case::Text { expr } => json!({ "class": "Text", "expr": expr }),
        }
    }
    fn expected_labels(&self) -> Vec<String> {
        ["class:Constant", "class:Unknown", "class:Other", "class:StringLiteral", "class:Poetic", "class:Text", "text:several_separators", "folded", "not_folded", "list_operand", "value:NaN", "value:inf", "value:-inf", "value:-0"]
            .iter()
            .map(|s| s.to_string())
            .collect()
    }
}

fn has_list(e: &Expr) -> bool {
    match e {
        Expr::Primary(_) => false,
        Expr::Unary { operand, .. } => has_list(operand),
        Expr::Binary { lhs, rhs, .. } => rhs.len() > 1 || has_list(lhs) || rhs.iter().any(has_list),
    }
}
