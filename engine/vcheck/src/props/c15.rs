//! C15 — renaming variables and re-casing names or keywords never changes behaviour.
//! Oracle: metamorphic relation between two runs of rrss (original vs renamed + re-cased).

use crate::harness::{Outcome, Prop, Tier};
use crate::run::{exec_rrss, fnv_str, parse_rrss, Caught, Limits as RLimits};
use engine_core::ast::*;
use engine_core::gen::arrays::ArrGen;
use engine_core::gen::flow::FlowGen;
use engine_core::gen::funcs::FnGen;
use engine_core::gen::names;
use engine_core::render::{render, RenderOpts};
use engine_core::tape::Tape;
use serde::{Deserialize, Serialize};
use serde_json::{json, Value};

pub struct C15;

#[derive(Clone, Debug, Serialize, Deserialize)]
pub struct Case {
    pub original: Program,
    pub renamed: Program,
    pub sp1: Vec<u32>,
    pub sp2: Vec<u32>,
    pub kind_changes: usize,
    pub case_changes: usize,
}

const CASE_ONLY: RenderOpts = RenderOpts { alias: true, case: true, noise: false, comments: false, layout: false, crlf: false };

fn kind(n: &Name) -> u8 {
    n.key().0
}

fn run_src(src: &str) -> Result<(String, Option<String>), String> {
    let tree = match parse_rrss(src, Some(crate::run::parse_fuel_for(src))) {
        Caught::Done(Ok(t)) => t,
        Caught::Done(Err(e)) => return Err(format!("does not parse: {}", e.text)),
        Caught::Panic(p) => return Err(format!("parse panicked: {}", p)),
        Caught::Budget(b) => return Err(format!("parse fuel {}", b)),
    };
    let (c, out) = exec_rrss(&tree, b"", RLimits { exec_fuel: Some(600), alloc_cap: Some(1_000_000) });
    match c {
        Caught::Done(()) => Ok((out.stdout_str(), out.err.map(|(v, _)| v))),
        Caught::Panic(p) => Err(format!("interpreter panicked: {}", p)),
        Caught::Budget(_) => Ok(("<resource bound>".into(), Some("budget".into()))),
    }
}

impl Prop for C15 {
    type Case = Case;
    fn id(&self) -> &'static str {
        "C15"
    }
    fn rule(&self) -> String {
        "programs from the control-flow, function/scope/pronoun and array-history generators; every distinct name is mapped injectively to a fresh name of a random kind (simple / common with any of the \
         six prefixes in any case / proper with 2-3 words; ASCII, accented, Greek, Cyrillic letters with one-to-one case mappings), every mention of it gets its own case variation (proper-name words keep their \
         upper-case initial), and keywords are re-cased independently in both renderings (every alias of every keyword incl. the glued 's / 're contractions in all their mixed-case forms). The two programs must print the same bytes and end alike (same success / same error variant). \
         non-trivial = at least one name changes kind or one mention changes case, and the program prints something; distinct by program pair"
            .into()
    }
    fn assumptions(&self) -> Vec<String> {
        vec![
            "error messages are not compared textually (they quote the names), only the error variant".into(),
            "letters whose case mapping is not one-to-one per character (final sigma, sharp s, dotless i) are outside the statement's 'ASCII and accented letters' and never generated".into(),
        ]
    }
    fn tape_len(&self, _t: Tier) -> usize {
        900
    }
    fn cases(&self, t: Tier) -> usize {
        t.pick(60_000, 2_000_000)
    }
    fn generate(&self, t: &mut Tape) -> Case {
        let sp1 = super::c02::take_spelling(t, 20);
        let sp2 = super::c02::take_spelling(t, 20);
        // renaming choices are drawn before the program so that they survive a long program
        // one case in six: adversarial naming, every fresh name from a family of names that are easily confused
        // (same letters with other word breaks, one name a prefix of another, simple / common / proper look-alikes)
        let fresh_pool = if t.chance(1, 6) { names::distinct_adversarial(t, 45) } else { names::distinct(t, 45) };
        let recase_tape: Vec<u32> = (0..40).map(|_| t.raw()).collect();
        let original = match t.pick(3) {
            0 => FlowGen::new(t).program(),
            1 => FnGen::new(t).program(),
            _ => ArrGen::new(t).program(),
        };
        let olds = collect_names(&original);
        // fresh names must not collide with each other (distinct keys guaranteed by `distinct`)
        let mut kind_changes = 0;
        let mapping: Vec<(Name, Name)> = olds
            .iter()
            .enumerate()
            .map(|(i, o)| {
                let n = fresh_pool[i % fresh_pool.len()].clone();
                if kind(&n) != kind(o) {
                    kind_changes += 1;
                }
                (o.clone(), n)
            })
            .collect();
        let injective = olds.len() <= fresh_pool.len();
        let mut rt = Tape::new_cyclic(&recase_tape);
        let mut case_changes = 0;
        let renamed = if injective {
            map_names(&original, &mut |n| {
                let target = mapping.iter().find(|(o, _)| o.key() == n.key()).map(|(_, x)| x.clone()).unwrap();
                let v = names::recase(&target, &mut rt);
                if v != target {
                    case_changes += 1;
                }
                v
            })
        } else {
            original.clone()
        };
        Case { original, renamed, sp1, sp2, kind_changes, case_changes }
    }
    fn check(&self, c: &Case) -> Outcome {
        if c.original.validate().is_err() || c.renamed.validate().is_err() {
            return Outcome::discard("generator_bug");
        }
        let s1 = render(&c.original, &c.sp1, CASE_ONLY).text;
        let s2 = render(&c.renamed, &c.sp2, CASE_ONLY).text;
        let r1 = match run_src(&s1) {
            Ok(r) => r,
            Err(e) => return Outcome::discard(format!("original:{}", e.split(':').next().unwrap_or(""))),
        };
        let r2 = match run_src(&s2) {
            Ok(r) => r,
            Err(e) => {
                return Outcome::fail(format!(
                    "the renamed program {} although the original runs\n--- original:\n{}\n--- renamed:\n{}",
                    e, s1, s2
                ))
            }
        };
        if r1 != r2 {
            return Outcome::fail(format!(
                "renaming / re-casing changed the behaviour\n--- original output {:?} result {:?}\n--- renamed output  {:?} result {:?}\n--- original:\n{}\n--- renamed:\n{}",
                r1.0, r1.1, r2.0, r2.1, s1, s2
            ));
        }
        let mut o = Outcome::pass();
        o.evals = 2;
        o.digest = fnv_str(&r1.0) ^ fnv_str(&format!("{:?}", r1.1));
        o.nontrivial = (c.kind_changes > 0 || c.case_changes > 0) && !r1.0.is_empty();
        if c.kind_changes > 0 {
            o.labels.push("kind_changed".into());
        }
        if c.case_changes > 0 {
            o.labels.push("mention_case_changed".into());
        }
        let kinds: Vec<u8> = collect_names(&c.renamed).iter().map(kind).collect();
        for (k, l) in [(0u8, "to_simple"), (1, "to_common"), (2, "to_proper")] {
            if kinds.contains(&k) {
                o.labels.push(l.into());
            }
        }
        if !s2.is_ascii() {
            o.labels.push("non_ascii_names".into());
        }
        o.labels.push(if r1.1.is_some() { "ends_in_error".into() } else { "ok".into() });
        o
    }
    fn sample(&self, c: &Case) -> Value {
        json!({ "original": render(&c.original, &c.sp1, CASE_ONLY).text, "renamed": render(&c.renamed, &c.sp2, CASE_ONLY).text })
    }
    fn expected_labels(&self) -> Vec<String> {
        ["kind_changed", "mention_case_changed", "to_simple", "to_common", "to_proper", "non_ascii_names", "ok", "ends_in_error"].iter().map(|s| s.to_string()).collect()
    }
}
