//! C05 — functions, scopes and pronouns.  Oracle: reference model, in both scope readings.

use super::c02::take_spelling;
use crate::diff::{differential, to_outcome, DiffOpts};
use crate::harness::{Outcome, Prop, Tier};
use engine_core::ast::*;
use engine_core::gen::funcs::FnGen;
use engine_core::render::{render, RenderOpts};
use engine_core::tape::Tape;
use serde::{Deserialize, Serialize};
use serde_json::{json, Value};

pub struct C05;

#[derive(Clone, Debug, Serialize, Deserialize)]
pub struct Case {
    pub prog: Program,
    pub spelling: Vec<u32>,
    pub probe: Option<String>,
}

pub const PROBES: [&str; 22] = [
    "pronoun_after_if",
    "pronoun_write_after_if",
    "pronoun_after_call",
    "pronoun_after_loop",
    "block_local_after_block",
    "loop_local_after_loop",
    "param_after_call",
    "compound_on_block_local",
    "wrong_arity",
    "call_of_variable",
    "unknown_name",
    "function_as_variable",
    "pronoun_after_untaken_if",
    "call_through_shadowing_parameter",
    "call_through_shadowing_block_local",
    "pronoun_after_element_read",
    "pronoun_as_index",
    "function_visible_again_after_shadowing_call",
    "duplicate_parameter",
    "single_declaring_statement_in_block",
    "parameter_named_like_its_function",
    "function_defined_twice",
];

impl Prop for C05 {
    type Case = Case;
    fn id(&self) -> &'static str {
        "C05"
    }
    fn rule(&self) -> String {
        "programs with 1-4 top-level function definitions (names and 1-4 parameters of all three identifier classes; parameters may shadow globals) whose bodies are drawn from seven shapes \
         (leaf, recursion on a decreasing parameter reading a parameter after the recursive call, return from an if inside a loop, caller of an earlier function, global writer + local, \
         pronoun reader/writer, if/else-terminated body), a main part of calls in say/put/statement position with arguments incl. roll-expressions (order observable) and nested calls, \
         loops and ifs calling functions, scope-sensitive idioms (a fresh local that would grow if it leaked), pronoun reads/writes after naming events, and in half of the programs one \
         expected-failure probe (pronoun right after if/loop/call, block-/loop-/call-local after its scope, compound let on such a local, wrong arity, call of a variable, unknown name, \
         function used as variable). Cases on which the dynamic and the lexical scope reading disagree are skipped and counted. \
         non-trivial = a call executed and one of {shadowing, recursion depth >= 2, return from inside a loop/if, pronoun read, probe present}; distinct by program"
            .into()
    }
    fn assumptions(&self) -> Vec<String> {
        vec![
            "reference model; the statement's 'enclosing scope' is ambiguous between rrss's dynamic chain (names resolved along the chain of active calls) and a lexical reading (a function sees its own scopes and the globals): a program that means the same under both is judged against that meaning, one that does not must behave, as a whole, like one of the two (counted under scope_readings_differ:*)".into(),
            "one program in twelve is built around that difference: a helper called from the top level and from a function that defines (or takes as a parameter, or assigns) something of the same name as the function the helper calls".into(),
            "function definitions are top-level except in the visibility programs; break/continue/return are never placed at top level".into(),
        ]
    }
    fn tape_len(&self, _t: Tier) -> usize {
        400
    }
    fn cases(&self, t: Tier) -> usize {
        t.pick(120_000, 4_000_000)
    }
    fn generate(&self, t: &mut Tape) -> Case {
        let spelling = take_spelling(t, 40);
        let mut g = FnGen::new(t);
        let prog = g.program();
        Case { prog, spelling, probe: g.probe.map(String::from) }
    }
    fn check(&self, c: &Case) -> Outcome {
        let d = differential(
            &c.prog,
            &DiffOpts {
                spelling: &c.spelling,
                render: RenderOpts::CLEAN,
                both_scopings: true,
                lim: engine_core::model::Limits { max_depth: 400, max_steps: 6000, ..engine_core::model::Limits::default() },
                ..DiffOpts::default()
            },
        );
        match to_outcome(d) {
            Err(o) => o,
            Ok((m, _src, mut o)) => {
                let tr = &m.trace;
                let interesting = tr.shadows > 0 || tr.max_call_depth >= 2 || tr.returns_nested > 0 || tr.pronoun_reads > 0 || c.probe.is_some();
                o.nontrivial = tr.calls > 0 && interesting;
                let mut l: Vec<String> = vec![];
                let mut add = |b: bool, s: &str| {
                    if b {
                        l.push(s.to_string())
                    }
                };
                add(tr.shadows > 0, "shadowing");
                add(tr.max_call_depth >= 2, "call_depth>=2");
                add(tr.max_call_depth >= 4, "call_depth>=4");
                add(tr.returns_nested > 0, "return_from_nested");
                add(tr.pronoun_reads > 0, "pronoun_read");
                add(tr.pronoun_writes > 0, "pronoun_write");
                add(tr.calls > 0, "call_executed");
                add(tr.calls >= 5, "calls>=5");
                add(m.ok(), "ok");
                add(!m.ok(), "runtime_error");
                if let Some(p) = &c.probe {
                    l.push(format!("probe:{}", p));
                    if tr.says > 0 && m.out.ends_with("after probe\n") {
                        l.push("probe_passed_without_error".into());
                    } else if !m.ok() {
                        l.push("probe_reached_error".into());
                    }
                }
                o.labels.extend(l);
                o
            }
        }
    }
    fn sample(&self, c: &Case) -> Value {
        json!({ "src": render(&c.prog, &c.spelling, RenderOpts::CLEAN).text, "probe": c.probe })
    }
    fn expected_labels(&self) -> Vec<String> {
        let mut v: Vec<String> = ["shadowing", "call_depth>=2", "call_depth>=4", "return_from_nested", "pronoun_read", "pronoun_write", "call_executed", "ok", "runtime_error", "probe_reached_error"]
            .iter()
            .map(|s| s.to_string())
            .collect();
        for p in PROBES {
            v.push(format!("probe:{}", p));
        }
        v
    }
}
