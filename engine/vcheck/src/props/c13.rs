//! C13 — syntax errors are rejected and attributed to the line they occur on.
//! Oracle: the fault is constructed so that no valid reading exists; the expected line is computed from the text.

use crate::harness::{Outcome, Prop, Tier};
use crate::run::{fnv_str, parse_rrss, Caught};
use engine_core::ast::*;
use engine_core::gen::syntax::{SynCfg, SynGen};
use engine_core::render::{render, RenderOpts};
use engine_core::tape::Tape;
use serde::{Deserialize, Serialize};
use serde_json::{json, Value};

pub struct C13;

#[derive(Clone, Debug, Serialize, Deserialize)]
pub struct Case {
    pub prog: Program,
    pub spelling: Vec<u32>,
    /// statement (pre-order index, taken modulo the number of statements) in front of which the faulty line goes;
    /// usize::MAX = at the very end, without a final newline
    pub position: usize,
    pub fault: usize,
    /// what ends the faulty line before its line break: nothing, a carriage return (CR LF file), a tab
    #[serde(default)]
    pub tail: usize,
}

pub const TAILS: &[&str] = &["", "\r", "\t", "\t\r"];

/// (name, text, only valid at block depth 0?)
pub const FAULTS: &[(&str, &str, bool)] = &[
    ("say_without_operand", "say", false),
    ("shout_without_operand", "Shout", false),
    ("put_without_value", "put into x", false),
    ("let_without_value", "let x be", false),
    ("poetic_without_literal", "x is", false),
    ("if_without_condition", "if", false),
    ("while_without_condition", "while", false),
    ("operator_at_end_of_line", "say 1 plus", false),
    ("comparison_at_end_of_line", "say x is", false),
    ("put_without_into", "put 1 x", false),
    ("let_without_be", "let x 5", false),
    ("build_without_up", "build x", false),
    ("knock_without_down", "knock x", false),
    ("turn_without_direction", "turn x", false),
    ("take_it_to_top", "take it to top", false),
    ("break_it", "break it", false),
    ("two_statements_after_number", "say 1 say 2", false),
    ("two_statements_after_string", "say \"a\" put 1 into x", false),
    ("two_statements_after_break", "break listen", false),
    ("invalid_identifier_digit", "ab1 is 5", false),
    ("invalid_identifier_underscore", "_x is 5", false),
    ("invalid_identifier_accented_digit", "mētäl2 is 5", false),
    ("invalid_identifier_accented_underscore", "Ÿës_x is 5", false),
    ("invalid_identifier_accented_superscript", "tommé² says hello", false),
    ("invalid_identifier_in_expression", "say ünï9 plus 1", false),
    ("unterminated_string", "\"abc", false),
    ("stray_else", "else", true),
    ("prefix_without_word", "my", false),
    ("prefix_without_word_the", "put 1 into the", false),
    ("listen_to_nothing", "listen to", false),
    ("rock_without_target", "rock", false),
    ("roll_into_nothing", "roll x into", false),
    ("rock_like_without_literal", "rock x like", false),
    ("rock_with_nothing", "rock x with", false),
    ("cast_into_nothing", "cast x into", false),
    ("join_with_nothing", "join x with", false),
    ("function_call_statement_without_arguments", "x taking 1,", false),
    ("cut_without_operand", "cut", false),
    ("call_without_arguments", "x taking", false),
    ("function_without_parameters", "x takes", false),
    ("give_back_nothing", "give back", false),
    ("says_without_space", "x says", false),
    ("literal_ending_with_hyphen", "x is a -", true),
    ("at_without_index", "say x at", false),
    ("stray_symbol", "+ 1", false),
    ("mutation_on_literal", "cut \"a\"", false),
    // a list whose last or middle element is missing
    ("list_ending_in_comma", "rock x with 1, 2,", false),
    ("list_ending_in_and", "let x be with 1, 2, and", false),
    ("list_with_empty_element", "let x be 1 plus 2, , 3", false),
    ("list_ending_in_operator", "say x times 2, not", false),
    ("operand_list_ending_in_comma", "say 1 plus 2,", false),
    ("argument_list_ending_in_comma", "put x taking 1, 2, into y", false),
    ("list_ending_in_ampersand", "rock x with 1 & 2 &", false),
    ("list_ending_in_n", "say 1 plus 2 'n'", false),
];

const OPTS: RenderOpts = RenderOpts { alias: true, case: true, noise: false, comments: true, layout: true, crlf: false };

pub fn inject(c: &Case) -> Option<(String, u32, u32, bool)> {
    let r = render(&c.prog, &c.spelling, OPTS);
    let n = r.stats.stmt_offsets.len();
    if n == 0 {
        return None;
    }
    let (_, text, top_only) = FAULTS[c.fault % FAULTS.len()];
    if c.position == usize::MAX {
        // at the very end of the text, no final newline; every open block is closed by EOF
        let mut src = r.text.clone();
        if !src.ends_with('\n') {
            src.push('\n');
        }
        if top_only {
            // make sure no `if` is open that could claim an `else`
            src.push_str("\n\n\n\n\n\n");
        }
        let line = 1 + src.matches('\n').count() as u32;
        src.push_str(text);
        src.push_str(TAILS[c.tail % TAILS.len()]);
        return Some((src, line, 0, true));
    }
    let k = c.position % n;
    if top_only && r.stats.stmt_depths[k] != 0 {
        return None;
    }
    let off = r.stats.stmt_offsets[k];
    let mut src = String::with_capacity(r.text.len() + text.len() + 1);
    src.push_str(&r.text[..off]);
    src.push_str(text);
    src.push_str(TAILS[c.tail % TAILS.len()]);
    src.push('\n');
    src.push_str(&r.text[off..]);
    let line = 1 + r.text[..off].matches('\n').count() as u32;
    Some((src, line, r.stats.stmt_depths[k], false))
}

impl Prop for C13 {
    type Case = Case;
    fn id(&self) -> &'static str {
        "C13"
    }
    fn rule(&self) -> String {
        format!(
            "triples (valid program, position, fault): programs from the grammar-directed generator (nested blocks, functions, multi-line strings and comments, blank-line separated top-level blocks), rendered with random \
             aliases/case/layout/comments; the position is the first token of any statement at any depth (or the very end of the text without final newline); the fault is one of {} context-independent faulty lines \
             (missing operand, missing keyword, two statements on one line, invalid identifier, unterminated string, stray else at top level, article without word, ...) inserted as a line of its own where that statement starts, ended by LF, CR LF, tab + LF or tab + CR LF. \
             Expected: parse error on exactly that line. non-trivial = fault on line >= 2 with a block, blank line or multi-line token before it; distinct by triple",
            FAULTS.len()
        )
    }
    fn assumptions(&self) -> Vec<String> {
        vec![
            "each faulty line is rejected wherever a statement may start (stray `else` and a literal ending in a hyphen only at top level), checked over all positions of all generated programs".into(),
            "the expected line is 1 + the number of line breaks before the insertion point".into(),
        ]
    }
    fn tape_len(&self, _t: Tier) -> usize {
        500
    }
    fn cases(&self, t: Tier) -> usize {
        t.pick(600_000, 4_000_000)
    }
    fn generate(&self, t: &mut Tape) -> Case {
        let spelling = super::c02::take_spelling(t, 40);
        let fault = t.pick(FAULTS.len());
        let position = if t.chance(1, 12) { usize::MAX } else { t.pick(64) };
        let tail = t.weighted(&[55, 25, 12, 8]);
        let prog = SynGen::new(t, SynCfg::default()).program();
        Case { prog, spelling, position, fault, tail }
    }
    fn fixed_cases(&self, _t: Tier) -> (Vec<Case>, bool) {
        // every fault alone, at the start of an otherwise trivial program and at its end
        let prog = Program::single(vec![say(num(1.0)), Stmt::While { cond: var(&simple("x")), body: vec![say(num(2.0)), say(num(3.0))] }, say(num(4.0))]);
        let mut v = vec![];
        for f in 0..FAULTS.len() {
            for position in [0usize, 1, 2, 3, 4, usize::MAX] {
                for tail in 0..TAILS.len() {
                    v.push(Case { prog: prog.clone(), spelling: vec![], position, fault: f, tail });
                }
            }
        }
        (v, false)
    }
    fn check(&self, c: &Case) -> Outcome {
        let (src, line, depth, at_eof) = match inject(c) {
            Some(x) => x,
            None => return Outcome::discard("fault_not_applicable_here"),
        };
        let name = FAULTS[c.fault % FAULTS.len()].0;
        match parse_rrss(&src, Some(crate::run::parse_fuel_for(&src))) {
            Caught::Panic(p) => Outcome::fail(format!("parse panicked: {}\n{}", p, src)),
            Caught::Budget(_) => Outcome::fail(format!("parse ran out of fuel\n{}", src)),
            Caught::Done(Ok(_)) => Outcome::fail(format!("fault `{}` on line {} was accepted silently\n--- text:\n{}", name, line, src)),
            Caught::Done(Err(e)) => {
                if e.line != line {
                    return Outcome::fail(format!(
                        "fault `{}` lies on line {} but the parse error says line {}: {}\n--- text:\n{}",
                        name, line, e.line, e.text, src
                    ));
                }
                // the rendered message must carry that line number (in whatever wording)
                let names_line = e.text.split(|c: char| !c.is_ascii_digit()).any(|w| w == line.to_string());
                if !names_line {
                    return Outcome::fail(format!("error text {:?} does not name line {}", e.text, line));
                }
                let before = &src[..src.len().min(src.match_indices('\n').nth(line.saturating_sub(2) as usize).map_or(0, |(i, _)| i))];
                let mut o = Outcome::pass();
                o.digest = fnv_str(&e.text);
                o.nontrivial = line >= 2 && (depth > 0 || before.contains("\n\n") || before.contains("(multi") || before.contains("(else") || before.contains("multi\nline") || before.contains("\n)") || before.contains("\n\""));
                o.labels.push(format!("fault:{}", name));
                o.labels.push(format!("err:{}", e.code));
                if depth > 0 {
                    o.labels.push("inside_block".into());
                }
                if depth >= 2 {
                    o.labels.push("depth>=2".into());
                }
                if at_eof {
                    o.labels.push("at_eof".into());
                }
                if c.tail % TAILS.len() != 0 {
                    o.labels.push(format!("tail:{:?}", TAILS[c.tail % TAILS.len()]));
                }
                if !e.loc_is_token {
                    o.labels.push("line_location".into());
                }
                if before.contains("(multi\n") || before.contains("(else\n") {
                    o.labels.push("after_multiline_comment".into());
                }
                if before.contains("multi\nline\"") || before.contains("two\n\nblank") {
                    o.labels.push("after_multiline_string".into());
                }
                if before.contains("\n)") || before.contains("\n\"") {
                    o.labels.push("after_token_whose_last_line_is_empty".into());
                }
                o
            }
        }
    }
    fn sample(&self, c: &Case) -> Value {
        match inject(c) {
            Some((src, line, _, _)) => json!({ "fault": FAULTS[c.fault % FAULTS.len()].0, "line": line, "src": src }),
            None => json!({ "fault": FAULTS[c.fault % FAULTS.len()].0, "not_applicable": true }),
        }
    }
    fn expected_labels(&self) -> Vec<String> {
        let mut v: Vec<String> = FAULTS.iter().map(|f| format!("fault:{}", f.0)).collect();
        for s in ["inside_block", "depth>=2", "at_eof", "line_location", "after_multiline_comment", "after_multiline_string", "after_token_whose_last_line_is_empty"] {
            v.push(s.into());
        }
        v
    }
}
