//! C18 — constant-assignment lint is exact and its suggested rewrite is equivalent.

use crate::harness::{Outcome, Prop, Tier};
use crate::lintexp::{expected_boring, issue_text, number_text, stars_numeral, Reported};
use crate::run::{exec_rrss, fnv_str, guarded, parse_rrss, Caught, Limits as RLimits};
use engine_core::ast::*;
use engine_core::gen::lintprog::LintGen;
use engine_core::render::{render, RenderOpts};
use engine_core::tape::Tape;
use rrss::linter::passes::BoringAssignmentPass;
use rrss::linter::Linter;
use serde::{Deserialize, Serialize};
use serde_json::{json, Value};

pub struct C18;

#[derive(Clone, Debug, Serialize, Deserialize)]
pub struct Case {
    pub prog: Program,
    pub spelling: Vec<u32>,
}

const OPTS: RenderOpts = RenderOpts { alias: true, case: true, noise: false, comments: true, layout: true, crlf: false };

fn has_poetic_spelling(v: &Reported) -> bool {
    match v {
        Reported::Number(n) => n.is_finite() && n.is_sign_positive(),
        Reported::Str(s) => !s.contains('\n'),
    }
}

/// does `hay` contain `needle` as a token of its own (not glued to letters, digits, `.` or `-` on a side where the
/// needle itself ends in one)?  The empty needle is contained in everything.
fn contains_token(hay: &str, needle: &str) -> bool {
    if needle.is_empty() {
        return true;
    }
    let glue = |c: char| c.is_alphanumeric() || c == '.' || c == '-';
    let first = needle.chars().next().unwrap();
    let last = needle.chars().last().unwrap();
    let mut from = 0;
    while let Some(p) = hay[from..].find(needle) {
        let a = from + p;
        let b = a + needle.len();
        let before_ok = !glue(first) || hay[..a].chars().last().map_or(true, |c| !glue(c));
        let after_ok = !glue(last) || hay[b..].chars().next().map_or(true, |c| !glue(c));
        if before_ok && after_ok {
            return true;
        }
        from = a + first.len_utf8();
    }
    false
}

/// run a one-line suggestion followed by `say <var>` and return what it prints
fn run_suggestion(line: &str, var: &Name) -> Result<String, String> {
    let src = format!("{}\nsay {}\n", line, var.text());
    let tree = match parse_rrss(&src, Some(crate::run::parse_fuel_for(&src))) {
        Caught::Done(Ok(t)) => t,
        Caught::Done(Err(e)) => return Err(format!("the suggested line does not parse: {}", e.text)),
        Caught::Panic(p) => return Err(format!("parse of the suggested line panicked: {}", p)),
        Caught::Budget(_) => return Err("parse fuel".into()),
    };
    let (c, out) = exec_rrss(&tree, b"", RLimits { exec_fuel: Some(50), alloc_cap: Some(1_000_000) });
    match c {
        Caught::Done(()) => {}
        Caught::Panic(p) => return Err(format!("running the suggested line panicked: {}", p)),
        Caught::Budget(_) => return Err("budget".into()),
    }
    if let Some(e) = out.err {
        return Err(format!("running the suggested line failed: {:?}", e));
    }
    Ok(out.stdout_str())
}

impl Prop for C18 {
    type Case = Case;
    fn id(&self) -> &'static str {
        "C18"
    }
    fn rule(&self) -> String {
        "programs of <= 14 statements, mostly assignment-like (put/let, compound let, poetic number with an expression / with words, poetic string, rock with one value / with a list / like words / bare) whose right-hand sides are: \
         plain numbers incl. 0, 10, 100 (zero digits), fractions, 5e-324, 1e21; negative, -0, infinite, NaN-valued constants; nested constant expressions with list operands; string literals with blanks, punctuation, line breaks, empty; \
         non-constants (variables, pronouns, elements) and other literal kinds / logic; targets plain variables of all three name kinds, pronouns, elements (also with a multi-line string as index); nested in if/else, loops, functions, \
         several top-level blocks, multi-line strings and comments before them. Expected reports are recomputed from the generated tree; every suggestion is parsed back (stars -> numeral) and, for plain-variable targets, executed. \
         non-trivial = >= 1 reported and >= 1 unreported assignment-like statement; distinct by program"
            .into()
    }
    fn assumptions(&self) -> Vec<String> {
        vec![
            "messages are not compared word by word: a report must name the value and the target as tokens of its issue text; the suggested line is what stands between the first and last backtick of a suggestion (else the whole text); a suggestion is 'poetic' when it shows star-words (numbers) or says/said (strings)".into(),
            "each `*` of a suggestion stands for a letter (a literal `*` is the multiplication token); the executed line has every `*` replaced by `x`".into(),
            "for a statement spanning several lines (multi-line string or comment inside it) any line of the statement is accepted as 'the correct line': the statement does not single one out".into(),
            "suggested numeric literals are compared with the reported value with the tolerance of C11 (exact for integers below 2^53 without a period)".into(),
        ]
    }
    fn tape_len(&self, _t: Tier) -> usize {
        450
    }
    fn cases(&self, t: Tier) -> usize {
        t.pick(400_000, 2_500_000)
    }
    fn generate(&self, t: &mut Tape) -> Case {
        let spelling = super::c02::take_spelling(t, 30);
        Case { prog: LintGen::new(t).program(), spelling }
    }
    fn check(&self, c: &Case) -> Outcome {
        if c.prog.blocks.is_empty() {
            return Outcome::discard("empty");
        }
        if let Err(e) = c.prog.validate() {
            return Outcome::discard(format!("generator_bug:{}", e));
        }
        let r = render(&c.prog, &c.spelling, OPTS);
        let src = &r.text;
        let tree = match parse_rrss(src, Some(crate::run::parse_fuel_for(src))) {
            Caught::Done(Ok(t)) => t,
            _ => return Outcome::discard("render_mismatch:rejected"),
        };
        if crate::adapt::program(&tree) != c.prog {
            return Outcome::discard("render_mismatch:tree");
        }
        let diags = match guarded(|| Linter::new(vec![Box::new(BoringAssignmentPass)]).run(&tree).diags) {
            Caught::Done(d) => d,
            Caught::Panic(p) => return Outcome::fail(format!("the constant-assignment lint panicked: {}\n--- program:\n{}", p, src)),
            Caught::Budget(b) => return Outcome::fail(format!("budget {}", b)),
        };
        let expected = expected_boring(&c.prog);
        let ctx = |m: String| format!("{}\n--- diagnostics: {:#?}\n--- program:\n{}", m, diags, src);
        if diags.len() != expected.len() {
            return Outcome::fail(ctx(format!(
                "{} assignment(s) with a constant right-hand side expected to be reported (statements {:?}), the lint reports {}",
                expected.len(),
                expected.iter().map(|e| e.stmt).collect::<Vec<_>>(),
                diags.len()
            )));
        }
        // the pass reports in traversal order; the linter sorts by line (stable): sort the expectation the same way
        let mut exp_sorted: Vec<_> = expected.iter().collect();
        exp_sorted.sort_by_key(|e| r.stats.stmt_lines[e.stmt]);
        let mut labels: Vec<String> = vec![];
        let mut evals = 1u32;
        // diags on the same line may legitimately come in either statement order only if they are on one line: match greedily
        let mut used = vec![false; diags.len()];
        for e in &exp_sorted {
            // "the correct line": the statement does not single out one line of a statement that spans several; rrss itself
            // reports the line of the value's first *operand* (`put without (c⏎c) 1e999 into X` -> the line of 1e999), so any
            // line the statement occupies is accepted (a tighter rule raised a false alarm, see DESIGN.md section 9)
            let lo = r.stats.stmt_lines[e.stmt];
            let hi = r.stats.stmt_end_lines[e.stmt].max(lo);
            // the report must name the value and the target (in whatever wording) on a line of the statement
            let want_issue = issue_text(&e.value, &e.target);
            let vt = match &e.value {
                Reported::Number(n) => number_text(*n),
                Reported::Str(s) => s.clone(),
            };
            let names_it = |d: &rrss::linter::Diag| contains_token(&d.issue, &vt) && contains_token(&d.issue, &e.target);
            let in_range = |d: &rrss::linter::Diag| d.line >= lo && d.line <= hi;
            let pos = diags
                .iter()
                .enumerate()
                .position(|(i, d)| !used[i] && in_range(d) && d.issue == want_issue)
                .or_else(|| diags.iter().enumerate().position(|(i, d)| !used[i] && in_range(d) && names_it(d)));
            let i = match pos {
                Some(i) => i,
                None => {
                    return Outcome::fail(ctx(format!(
                        "missing report: statement #{} (lines {}..={}) should be reported, naming the value {:?} and the target {:?}",
                        e.stmt, lo, hi, vt, e.target
                    )))
                }
            };
            used[i] = true;
            let d = &diags[i];
            labels.push(match &e.value {
                Reported::Number(n) if !n.is_finite() => "reported:non_finite".into(),
                Reported::Number(n) if n.is_sign_negative() => "reported:negative".into(),
                Reported::Number(n) if n.fract() != 0.0 => "reported:fraction".into(),
                Reported::Number(_) => "reported:integer".into(),
                Reported::Str(s) if s.contains('\n') => "reported:string_with_line_break".into(),
                Reported::Str(_) => "reported:string".into(),
            });
            if e.rock {
                labels.push("rock".into());
            }
            if hi > lo {
                labels.push("multi_line_statement".into());
            }
            // every suggestion that shows a poetic literal (star-words, or `says` for strings) is examined, whatever its
            // frame: the suggested line is what stands between the first and the last backtick, else the whole text
            for sug in &d.suggestions {
                let payload: &str = match (sug.find('`'), sug.rfind('`')) {
                    (Some(a), Some(b)) if b > a => &sug[a + 1..b],
                    _ => sug.as_str(),
                };
                match &e.value {
                    Reported::Number(n) => {
                        if !payload.contains('*') {
                            continue;
                        }
                        if !has_poetic_spelling(&e.value) {
                            return Outcome::fail(ctx(format!("value {:?} has no poetic spelling, yet a poetic suggestion is made: {:?}", e.value, sug)));
                        }
                        let cut = payload.rfind(|c: char| !(c == '*' || c == ' ' || c == '.')).map_or(0, |i| i + payload[i..].chars().next().map_or(1, |c| c.len_utf8()));
                        let stars = payload[cut..].trim();
                        let numeral = match stars_numeral(stars) {
                            Some(x) => x,
                            None => return Outcome::fail(ctx(format!("suggestion words {:?} are not star-words and periods", stars))),
                        };
                        if numeral != number_text(*n) {
                            return Outcome::fail(ctx(format!("the suggested words spell {} but the reported value is {}", numeral, number_text(*n))));
                        }
                        labels.push("suggestion_spelling_checked".into());
                        if let Some(var) = e.plain_variable.as_ref() {
                            let line = payload.replace('*', "x");
                            let read = if e.rock { format!("{} at 0", var.text()) } else { var.text() };
                            let probe = Name::Simple(read);
                            evals += 1;
                            match run_suggestion(&line, &probe) {
                                Ok(out) => {
                                    let got: f64 = match out.trim_end().parse() {
                                        Ok(v) => v,
                                        Err(_) => return Outcome::fail(ctx(format!("the suggested line {:?} leaves {:?} in the variable", line, out))),
                                    };
                                    let exact = !numeral.contains('.') && *n < 9007199254740992.0;
                                    let tol = if exact { 0 } else { 16u64 };
                                    let dist = if got == *n { 0 } else { (got.to_bits() as i128 - n.to_bits() as i128).unsigned_abs() as u64 };
                                    if dist > tol {
                                        return Outcome::fail(ctx(format!("the suggested line {:?} gives {} but the reported value is {}", line, got, n)));
                                    }
                                    labels.push("suggestion_executed".into());
                                }
                                Err(m) => return Outcome::fail(ctx(format!("suggested line {:?}: {}", line, m))),
                            }
                        }
                    }
                    Reported::Str(text) => {
                        if !payload.contains("says") && !payload.contains("said") {
                            continue;
                        }
                        if !has_poetic_spelling(&e.value) {
                            return Outcome::fail(ctx(format!("string {:?} cannot be a poetic string (line break), yet a poetic suggestion is made: {:?}", text, sug)));
                        }
                        if !payload.ends_with(text.as_str()) {
                            return Outcome::fail(ctx(format!("string suggestion {:?} does not end in the reported text {:?}", payload, text)));
                        }
                        if let Some(var) = &e.plain_variable {
                            evals += 1;
                            match run_suggestion(payload, var) {
                                Ok(out) => {
                                    if out != format!("{}\n", text) {
                                        return Outcome::fail(ctx(format!("the suggested line {:?} gives {:?} but the reported value is {:?}", payload, out, text)));
                                    }
                                    labels.push("suggestion_executed".into());
                                }
                                Err(m) => return Outcome::fail(ctx(format!("suggested line {:?}: {}", payload, m))),
                            }
                        }
                    }
                }
            }
            if !has_poetic_spelling(&e.value) {
                labels.push("no_suggestion_for_unspellable_value".into());
            }
        }
        let assignment_like = count_assignment_like(&c.prog);
        let mut o = Outcome::pass();
        o.evals = evals;
        o.nontrivial = !expected.is_empty() && assignment_like > expected.len();
        o.digest = fnv_str(&format!("{:?}", diags));
        labels.sort();
        labels.dedup();
        o.labels = labels;
        if expected.is_empty() {
            o.labels.push("nothing_to_report".into());
        }
        o
    }
    fn sample(&self, c: &Case) -> Value {
        json!({ "src": render(&c.prog, &c.spelling, OPTS).text, "expected_reports": expected_boring(&c.prog).len() })
    }
    fn expected_labels(&self) -> Vec<String> {
        [
            "reported:integer", "reported:fraction", "reported:negative", "reported:non_finite", "reported:string", "reported:string_with_line_break", "rock", "multi_line_statement",
            "no_suggestion_for_unspellable_value", "suggestion_executed", "suggestion_spelling_checked", "nothing_to_report",
        ]
        .iter()
        .map(|s| s.to_string())
        .collect()
    }
}

fn count_assignment_like(p: &Program) -> usize {
    fn blk(b: &[Stmt]) -> usize {
        b.iter()
            .map(|s| match s {
                Stmt::Assign { .. } | Stmt::PoeticNum { .. } | Stmt::PoeticStr { .. } | Stmt::Push { .. } => 1,
                Stmt::If { then, els, .. } => blk(then) + els.as_ref().map_or(0, |e| blk(e)),
                Stmt::While { body, .. } | Stmt::Until { body, .. } | Stmt::Function { body, .. } => blk(body),
                _ => 0,
            })
            .sum()
    }
    p.blocks.iter().map(|b| blk(b)).sum()
}
