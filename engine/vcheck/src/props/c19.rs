//! C19 — lint reports are complete, ordered by line, and linting never fails.

use crate::harness::{Outcome, Prop, Tier};
use crate::lintexp::expected_repeats;
use crate::run::{fnv_str, guarded, parse_rrss, Caught};
use engine_core::ast::*;
use engine_core::gen::lintprog::LintGen;
use engine_core::gen::soup;
use engine_core::gen::syntax::{SynCfg, SynGen};
use engine_core::gen::wild::gen_wild;
use engine_core::render::{render, RenderOpts};
use engine_core::tape::Tape;
use rrss::linter::passes::{BoringAssignmentPass, MissedPronounPass};
use rrss::linter::{standard_linter, Diag, Linter};
use serde::{Deserialize, Serialize};
use serde_json::{json, Value};

pub struct C19;

#[derive(Clone, Debug, Serialize, Deserialize)]
pub enum Case {
    Prog { prog: Program, spelling: Vec<u32> },
    Text { src: String },
}

const OPTS: RenderOpts = RenderOpts { alias: true, case: true, noise: false, comments: true, layout: true, crlf: false };

fn source(c: &Case) -> String {
    match c {
        Case::Prog { prog, spelling } => render(prog, spelling, OPTS).text,
        Case::Text { src } => src.clone(),
    }
}

/// 20-90 statements over two names, most of them reported by BOTH passes on the same line (a constant assignment
/// to the variable mentioned last): reports of 30-150 diagnostics with many same-line ties, where an unstable or
/// differently keyed sort shows
fn long_report(t: &mut Tape) -> Program {
    let names = engine_core::gen::names::distinct(t, 2);
    let n = 20 + t.pick(71);
    let mut stmts: Vec<Stmt> = vec![];
    for _ in 0..n {
        let x = &names[if t.chance(1, 5) { 1 } else { 0 }];
        let k = num(t.pick(12) as f64);
        let st = match t.weighted(&[30, 25, 15, 10, 10, 10]) {
            0 => put(k, x),
            1 => Stmt::Assign { dest: Lhs::Ident(Ident::Name(x.clone())), value: vec![k], op: None },
            2 => say(var(x)),
            3 => Stmt::Push { array: pvar(x), value: Some(PushRhs::List(vec![k])) },
            4 => say(bin(BinOp::Plus, var(x), var(x))),
            _ => put(strlit("s"), x),
        };
        stmts.push(st);
    }
    if t.chance(1, 3) {
        // part of it inside a block, part in a second top-level block
        let tail = stmts.split_off(stmts.len() / 2);
        let inner = stmts.split_off(stmts.len() / 2);
        stmts.push(Stmt::If { cond: var(&names[0]), then: inner, els: None });
        return Program { blocks: vec![stmts, tail] };
    }
    Program::single(stmts)
}

impl Prop for C19 {
    type Case = Case;
    fn id(&self) -> &'static str {
        "C19"
    }
    fn rule(&self) -> String {
        "parsed programs from five sources: long programs of 20-90 statements most of which both passes report on the same line (reports of 30-150 diagnostics with many ties), grammar-generated programs over a pool of three names (many consecutive mentions: call names, arguments, parameters, subscripts, list operands, function definitions), \
         the constant-assignment generator (many reports on shared lines), wild crash-test programs, and token-level mutations of the repository's test programs that still parse. Checked: no panic; the program's Debug text is \
         unchanged by linting; the merged report equals the stable sort by line of (constant-assignment pass alone ++ repeated-identifier pass alone); the repeated-identifier reports equal an independent recomputation \
         over the tree in traversal order (previous mention, exact spelling, callee names never reported but remembered), with line and text. \
         non-trivial = >= 3 variable mentions incl. a repeated pair or a call name; distinct by source"
            .into()
    }
    fn assumptions(&self) -> Vec<String> {
        vec![
            "traversal order is the one C16 fixes; consecutive mentions never differ only in case (names are compared exactly by the pass, the statement does not say which)".into(),
        ]
    }
    fn tape_len(&self, _t: Tier) -> usize {
        450
    }
    fn cases(&self, t: Tier) -> usize {
        t.pick(400_000, 3_000_000)
    }
    fn generate(&self, t: &mut Tape) -> Case {
        let spelling = super::c02::take_spelling(t, 30);
        match t.weighted(&[42, 23, 15, 14, 6]) {
            4 => Case::Prog { prog: long_report(t), spelling: spelling.into_iter().take(8).collect() },
            0 => {
                let mut g = SynGen::new(t, SynCfg { name_pool: 3, giant_chains: true, ..SynCfg::default() });
                g.funcs = g.names.clone();
                Case::Prog { prog: g.program(), spelling }
            }
            1 => Case::Prog { prog: LintGen::new(t).program(), spelling },
            2 => Case::Prog { prog: gen_wild(t, true).prog, spelling },
            _ => {
                let a = super::textgen::snippet(t);
                let b = super::textgen::snippet(t);
                Case::Text { src: soup::mutate(a, t, b) }
            }
        }
    }
    fn fixed_cases(&self, _t: Tier) -> (Vec<Case>, bool) {
        (engine_core::snippets().iter().map(|s| Case::Text { src: s.clone() }).collect(), false)
    }
    fn check(&self, c: &Case) -> Outcome {
        let src = source(c);
        let tree = match parse_rrss(&src, Some(crate::run::parse_fuel_for(&src))) {
            Caught::Done(Ok(t)) => t,
            Caught::Done(Err(_)) => return Outcome::discard("parse_error"),
            Caught::Panic(p) => return Outcome::fail(format!("parse panicked: {}\n{}", p, src)),
            Caught::Budget(_) => return Outcome::fail(format!("parse fuel\n{}", src)),
        };
        let before = format!("{:?}", tree);
        let r = guarded(|| {
            let all = standard_linter().run(&tree).diags;
            let boring = Linter::new(vec![Box::new(BoringAssignmentPass)]).run(&tree).diags;
            let missed = Linter::new(vec![Box::new(MissedPronounPass::new())]).run(&tree).diags;
            (all, boring, missed)
        });
        let (all, boring, missed) = match r {
            Caught::Done(x) => x,
            Caught::Panic(p) => return Outcome::fail(format!("linting panicked: {}\n--- program:\n{}", p, src)),
            Caught::Budget(b) => return Outcome::fail(format!("budget {}", b)),
        };
        if format!("{:?}", tree) != before {
            return Outcome::fail(format!("linting changed the program\n{}", src));
        }
        let ctx = |m: String| format!("{}\n--- program:\n{}", m, src);
        // ordered by line
        if all.windows(2).any(|w| w[0].line > w[1].line) {
            return Outcome::fail(ctx(format!("the report is not ordered by line: {:?}", all.iter().map(|d| d.line).collect::<Vec<_>>())));
        }
        // stable merge, ties in pass order
        let mut merged: Vec<Diag> = boring.iter().cloned().chain(missed.iter().cloned()).collect();
        merged.sort_by_key(|d| d.line);
        if merged != all {
            return Outcome::fail(ctx(format!(
                "the merged report is not the stable merge by line of the two passes\n--- merged report: {:#?}\n--- expected: {:#?}",
                all, merged
            )));
        }
        // repeated-identifier pass == independent recomputation
        let exp = expected_repeats(&tree);
        // compared by line and by the name each report quotes, not by the wording of the message
        let mut exp_diags: Vec<(u32, String)> = exp.iter().map(|e| (e.line, e.text.clone())).collect();
        exp_diags.sort_by_key(|d| d.0);
        let got: Vec<(u32, String)> = missed.iter().map(|d| (d.line, d.issue.clone())).collect();
        let same = got.len() == exp_diags.len() && got.iter().zip(exp_diags.iter()).all(|(g, e)| g.0 == e.0 && g.1.contains(e.1.as_str()));
        if !same {
            let i = got.iter().zip(exp_diags.iter()).position(|(g, e)| !(g.0 == e.0 && g.1.contains(e.1.as_str()))).unwrap_or(got.len().min(exp_diags.len()));
            return Outcome::fail(ctx(format!(
                "repeated-identifier reports differ from the recomputation at #{}: pass says {:?}, expected a report on that line naming {:?} ({} vs {} reports)",
                i,
                got.get(i),
                exp_diags.get(i),
                got.len(),
                exp_diags.len()
            )));
        }
        let mut w = crate::walk::Walker::new(false);
        w.program(&tree);
        let mentions = w.out.iter().filter(|e| matches!(e, crate::walk::Ev::Name { .. })).count();
        let callee = w.out.iter().any(|e| matches!(e, crate::walk::Ev::Name { callee: true, .. }));
        let mut o = Outcome::pass();
        o.evals = 3;
        o.nontrivial = mentions >= 3 && (!exp.is_empty() || callee);
        o.digest = fnv_str(&format!("{:?}", all));
        let mut add = |b: bool, s: &str| {
            if b {
                o.labels.push(s.to_string())
            }
        };
        add(!exp.is_empty(), "repeat_reported");
        add(callee, "call_name_mention");
        add(!boring.is_empty() && !missed.is_empty(), "both_passes_report");
        add(all.windows(2).any(|w| w[0].line == w[1].line), "several_reports_on_one_line");
        add(all.is_empty(), "no_reports");
        add(matches!(c, Case::Text { .. }), "text_mutation");
        // ties between the two passes on one line
        add(
            boring.iter().any(|b| missed.iter().any(|m| m.line == b.line)),
            "tie_between_passes",
        );
        add(all.len() >= 33 && boring.iter().any(|b| missed.iter().any(|m| m.line == b.line)), "report_of_33_or_more_with_ties");
        add(all.len() >= 100, "report_of_100_or_more");
        o
    }
    fn sample(&self, c: &Case) -> Value {
        json!({ "src": source(c) })
    }
    fn expected_labels(&self) -> Vec<String> {
        ["repeat_reported", "call_name_mention", "both_passes_report", "several_reports_on_one_line", "no_reports", "text_mutation", "tie_between_passes", "report_of_33_or_more_with_ties", "report_of_100_or_more"].iter().map(|s| s.to_string()).collect()
    }
}
