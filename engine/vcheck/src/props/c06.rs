//! C06 — arrays are independent values with queue and dictionary behaviour.
//! Oracle: reference model (deep copies), model-driven dump of all variables after every mutating step.

use crate::diff::{differential, to_outcome, DiffOpts};
use crate::harness::{Outcome, Prop, Tier};
use engine_core::ast::*;
use engine_core::gen::arrays::ArrGen;
use engine_core::model::Stop;
use engine_core::render::render_canonical;
use engine_core::tape::Tape;
use serde::{Deserialize, Serialize};
use serde_json::{json, Value};

pub struct C06;

#[derive(Clone, Debug, Serialize, Deserialize)]
pub struct Case {
    pub prog: Program,
    pub labels: Vec<String>,
    pub copy_then_mutate: bool,
}

impl Prop for C06 {
    type Case = Case;
    fn id(&self) -> &'static str {
        "C06"
    }
    fn rule(&self) -> String {
        "histories of 1-14 operations over four variables: element writes through 0-3 nested subscripts (small / beyond-the-end / fractional / negative indices, string / boolean / null / mysterious keys), \
         storing a copy of another variable into an element, rock with 0/1/n values or a poetic literal (also onto elements and scalars), roll as statement (with/without destination) and as expression, \
         whole-variable copies (put / let), passing to a function that mutates and returns its parameter, compound assignment on elements, arrays in comparison / arithmetic / concatenation, reads through a function, \
         array-as-key and index-of-a-number error candidates. The generator interprets the history with the model and after every mutating step emits a dump of all four variables \
         (length, elements to depth 2, every known key, one past the end, kind-separating probes). \
         non-trivial = a copy (assignment, argument, element store) followed by a mutation of either side while both are live; distinct by program"
            .into()
    }
    fn assumptions(&self) -> Vec<String> {
        vec!["reference model with deep-copy values; arrays <= 64 elements, indices <= 40".into()]
    }
    fn tape_len(&self, _t: Tier) -> usize {
        300
    }
    fn cases(&self, t: Tier) -> usize {
        t.pick(200_000, 3_000_000)
    }
    fn generate(&self, t: &mut Tape) -> Case {
        let mut g = ArrGen::new(t);
        let prog = g.program();
        Case { prog, labels: g.labels.iter().map(|s| s.to_string()).collect(), copy_then_mutate: g.copy_then_mutate }
    }
    fn check(&self, c: &Case) -> Outcome {
        let d = differential(&c.prog, &DiffOpts { lim: engine_core::model::Limits { max_arr: 600, ..engine_core::model::Limits::default() }, ..DiffOpts::default() });
        match to_outcome(d) {
            Err(o) => o,
            Ok((m, _src, mut o)) => {
                o.nontrivial = c.copy_then_mutate;
                let mut l = c.labels.clone();
                if c.copy_then_mutate {
                    l.push("copy_then_mutate".into());
                }
                match &m.result {
                    Ok(()) => l.push("ok".into()),
                    Err(Stop::Error(k)) => l.push(format!("error:{}", k)),
                    _ => {}
                }
                if m.trace.array_writes > 0 {
                    l.push("subscript_write_executed".into());
                }
                o.labels = l;
                o
            }
        }
    }
    fn sample(&self, c: &Case) -> Value {
        json!({ "src": render_canonical(&c.prog) })
    }
    fn expected_labels(&self) -> Vec<String> {
        [
            "copy_then_mutate", "dict_key", "rock", "roll", "roll_expr", "copy", "arg_copy", "store_copy", "nested_write", "nested_subscript",
            "array_in_expression", "scalar_assigned", "error:not indexable", "error:array as key", "error:pop of a non-array", "error:index not assignable", "ok",
        ]
        .iter()
        .map(|s| s.to_string())
        .collect()
    }
}
