//! C07 — split, join, cast and rounding transform values exactly and only their target.

use crate::diff::{differential, to_outcome, DiffOpts};
use crate::harness::{Outcome, Prop, Tier};
use engine_core::ast::*;
use engine_core::gen::mutate::MutGen;
use engine_core::model::{Limits, Stop};
use engine_core::render::render_canonical;
use engine_core::tape::Tape;
use serde::{Deserialize, Serialize};
use serde_json::{json, Value};

pub struct C07;

#[derive(Clone, Debug, Serialize, Deserialize)]
pub struct Case {
    pub prog: Program,
    pub stdin: String,
    pub labels: Vec<String>,
}

impl Prop for C07 {
    type Case = Case;
    fn id(&self) -> &'static str {
        "C07"
    }
    fn rule(&self) -> String {
        "1-4 steps per program; each step gives the operand a fresh value (strings from an atom alphabet incl. empty, multi-byte, numeric-looking, delimiters at both ends, doubled and overlapping, \
         half of them through `listen` so that quotes, CR, NUL are reachable; numbers incl. fractions, negatives, huge, -0, NaN, infinities, code-point boundaries; arrays of strings, sometimes with a \
         non-string element or a dictionary part; other kinds), then applies cut / join / cast / turn up|down|round to the variable, to an array element holding it, or through a pronoun, with and \
         without `into` and `with` (delimiters: none, empty, a piece of the operand, unrelated, longer than the operand, wrong kind; radices 2..36, 0, 1, 37.., fractional, negative, NaN, wrong kind), \
         and dumps operand, holder and destination (kind-separating probes, every element). \
         non-trivial = a mutation/rounding executed on a non-empty operand or reached an error path of a wrong kind/parameter; distinct by program+stdin"
            .into()
    }
    fn assumptions(&self) -> Vec<String> {
        vec![
            "reference model with its own leftmost non-overlapping split; radix digits and f64 syntax by std (trusted)".into(),
            "arrays with more than one dictionary entry are joined only once finding F9 (hash-order join) is repaired".into(),
        ]
    }
    fn tape_len(&self, _t: Tier) -> usize {
        300
    }
    fn cases(&self, t: Tier) -> usize {
        t.pick(400_000, 3_000_000)
    }
    fn generate(&self, t: &mut Tape) -> Case {
        let mut g = MutGen::new(t);
        let prog = g.program();
        Case { prog, stdin: g.stdin.clone(), labels: g.labels.iter().cloned().collect() }
    }
    fn check(&self, c: &Case) -> Outcome {
        if c.prog.blocks.is_empty() {
            return Outcome::discard("empty");
        }
        let d = differential(&c.prog, &DiffOpts { stdin: &c.stdin, lim: Limits { max_arr: 256, ..Limits::default() }, ..DiffOpts::default() });
        match to_outcome(d) {
            Err(o) => o,
            Ok((m, _src, mut o)) => {
                let mut l = c.labels.clone();
                match &m.result {
                    Ok(()) => l.push("ok".into()),
                    Err(Stop::Error(k)) => l.push(format!("error:{}", k)),
                    _ => {}
                }
                o.nontrivial = true;
                o.labels = l;
                o
            }
        }
    }
    fn sample(&self, c: &Case) -> Value {
        json!({ "src": render_canonical(&c.prog), "stdin": c.stdin })
    }
    fn expected_labels(&self) -> Vec<String> {
        let mut v: Vec<String> = vec![];
        for op in ["Cut", "Join", "Cast"] {
            for m in ["into", "in_place"] {
                v.push(format!("{}:{}", op, m));
            }
        }
        for d in ["Up", "Down", "Nearest"] {
            v.push(format!("turn:{}", d));
        }
        for s in [
            "ok", "string_via_listen", "element_operand", "pronoun_operand", "delimiter_from_operand", "wrong_kind_parameter", "join_non_string_element",
            "join_with_dictionary_part", "error:invalid split delimiter", "error:invalid join delimiter", "error:invalid array element for join", "error:invalid radix or digits",
            "error:invalid radix", "error:string is not a number", "error:number is not a code point", "error:unexpected parameter for number-to-character cast",
            "error:rounding of a non-number", "error:split of a non-string", "error:join of a non-array", "error:cast of wrong kind",
        ] {
            v.push(s.into());
        }
        v
    }
}
