//! C04 — control flow follows the program text.  Oracle: reference model (marker trace).

use super::c02::take_spelling;
use crate::diff::{differential, to_outcome, DiffOpts};
use crate::harness::{Outcome, Prop, Tier};
use engine_core::ast::*;
use engine_core::gen::flow::FlowGen;
use engine_core::render::{render, RenderOpts};
use engine_core::tape::Tape;
use serde::{Deserialize, Serialize};
use serde_json::{json, Value};

pub struct C04;

#[derive(Clone, Debug, Serialize, Deserialize)]
pub struct Case {
    pub prog: Program,
    pub spelling: Vec<u32>,
}

impl Prop for C04 {
    type Case = Case;
    fn id(&self) -> &'static str {
        "C04"
    }
    fn rule(&self) -> String {
        "programs of nested if/else (empty branches included), counter-guarded and free-form while/until loops (<= 3 deep), break / continue (both spellings) only inside loops \
         and from any depth of nested ifs, continue as last statement, `say` markers and counter prints, conditions of every value kind (variables initialised from the value generators, \
         literals, comparisons, and/or/nor/not), an erroring statement at a random point; rendered with random aliases/case/optional words. Free-form loops that exceed 2000 reference steps are discarded. \
         non-trivial = a loop body ran and a break or continue was taken, or block nesting >= 2 was executed; distinct by program"
            .into()
    }
    fn assumptions(&self) -> Vec<String> {
        vec![
            "reference model for statement order, branch choice, loop re-evaluation and break/continue; non-termination decided by the exec-fuel hook at 10x the reference's steps + 100".into(),
            "break/continue outside a loop are never generated (unspecified by the statement)".into(),
        ]
    }
    fn tape_len(&self, _t: Tier) -> usize {
        400
    }
    fn cases(&self, t: Tier) -> usize {
        t.pick(300_000, 5_000_000)
    }
    fn generate(&self, t: &mut Tape) -> Case {
        let spelling = take_spelling(t, 40);
        let prog = FlowGen::new(t).program();
        Case { prog, spelling }
    }
    fn check(&self, c: &Case) -> Outcome {
        let d = differential(&c.prog, &DiffOpts { spelling: &c.spelling, render: RenderOpts::CLEAN, ..DiffOpts::default() });
        match to_outcome(d) {
            Err(o) => o,
            Ok((m, _src, mut o)) => {
                let tr = &m.trace;
                o.nontrivial = (tr.loop_iters > 0 && (tr.breaks > 0 || tr.continues > 0)) || tr.max_block_depth >= 2;
                let mut l: Vec<String> = vec![];
                let mut add = |b: bool, s: &str| {
                    if b {
                        l.push(s.to_string())
                    }
                };
                add(tr.break_in_nested_if > 0, "break_in_nested_if");
                add(tr.breaks > 0, "break_taken");
                add(tr.continues > 0, "continue_taken");
                add(tr.empty_branches > 0, "empty_branch");
                add(tr.until_loops > 0, "until");
                add(tr.loops_zero_iter > 0, "zero_iterations");
                add(tr.else_taken > 0, "else_taken");
                add(tr.max_block_depth >= 3, "depth>=3");
                add(!m.ok(), "error_mid_program");
                add(m.ok(), "ok");
                add(has_continue_last(&c.prog), "continue_last");
                o.labels = l;
                o
            }
        }
    }
    fn sample(&self, c: &Case) -> Value {
        json!({ "src": render(&c.prog, &c.spelling, RenderOpts::CLEAN).text })
    }
    fn expected_labels(&self) -> Vec<String> {
        ["break_in_nested_if", "break_taken", "continue_taken", "empty_branch", "until", "zero_iterations", "else_taken", "depth>=3", "error_mid_program", "ok", "continue_last"]
            .iter()
            .map(|s| s.to_string())
            .collect()
    }
}

fn has_continue_last(p: &Program) -> bool {
    fn blk(b: &[Stmt]) -> bool {
        b.iter().any(|s| match s {
            Stmt::While { body, .. } | Stmt::Until { body, .. } => matches!(body.last(), Some(Stmt::Continue)) || blk(body),
            Stmt::If { then, els, .. } => blk(then) || els.as_ref().map_or(false, |e| blk(e)),
            _ => false,
        })
    }
    p.blocks.iter().any(|b| blk(b))
}
