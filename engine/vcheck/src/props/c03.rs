//! C03 — expressions evaluate by the Rockstar value rules for every operand kind.
//! Oracle: reference model; exhaustive operator x universe^2 sweep + random nested expressions.

use crate::diff::{differential, to_outcome, DiffOpts};
use crate::harness::{Outcome, Prop, Tier};
use engine_core::ast::*;
use engine_core::gen::syntax::{Ctx, SynCfg, SynGen};
use engine_core::model::Kind;
use engine_core::render::render_canonical;
use engine_core::tape::Tape;
use engine_core::universe::{probe, universe, UVal};
use serde::{Deserialize, Serialize};
use serde_json::{json, Value};
use std::sync::OnceLock;

pub struct C03;

#[derive(Clone, Debug, Serialize, Deserialize)]
pub enum Case {
    Cell { op: BinOp, a: usize, b: usize },
    Unary { op: UnOp, a: usize },
    Compound { op: BinOp, a: usize, b: usize },
    IncDec { inc: bool, amount: u32, a: usize },
    Truth { a: usize },
    /// a value compared with itself: through the same variable, an unmodified copy, a separately built twin,
    /// as an element of itself-free arrays, and with a copy that was written to and restored
    SelfCmp { a: usize },
    Nested { prog: Program, stdin: String },
}

pub fn uni() -> &'static Vec<UVal> {
    static U: OnceLock<Vec<UVal>> = OnceLock::new();
    U.get_or_init(universe)
}

fn va() -> Name {
    simple("va")
}
fn vb() -> Name {
    simple("vb")
}
fn res() -> Name {
    simple("res")
}
fn scratch() -> Name {
    simple("scratch")
}

pub fn build_two(a: usize, b: usize) -> Vec<Stmt> {
    let mut s = uni()[a].stmts(&va(), &scratch());
    s.extend(uni()[b].stmts(&vb(), &scratch()));
    s
}

pub fn program_of(c: &Case) -> (Program, String) {
    match c {
        Case::Cell { op, a, b } => {
            let mut s = build_two(*a, *b);
            s.push(put(bin(*op, var(&va()), var(&vb())), &res()));
            s.extend(probe(var(&res())));
            (Program::single(s), String::new())
        }
        Case::Unary { op, a } => {
            let mut s = uni()[*a].stmts(&va(), &scratch());
            s.push(put(un(*op, var(&va())), &res()));
            s.extend(probe(var(&res())));
            (Program::single(s), String::new())
        }
        Case::Compound { op, a, b } => {
            let mut s = build_two(*a, *b);
            s.push(Stmt::Assign { dest: Lhs::Ident(Ident::Name(va())), value: vec![var(&vb())], op: Some(*op) });
            s.extend(probe(var(&va())));
            (Program::single(s), String::new())
        }
        Case::IncDec { inc, amount, a } => {
            let mut s = uni()[*a].stmts(&va(), &scratch());
            s.push(if *inc { Stmt::Inc { dest: Ident::Name(va()), amount: *amount } } else { Stmt::Dec { dest: Ident::Name(va()), amount: *amount } });
            s.extend(probe(var(&va())));
            (Program::single(s), String::new())
        }
        Case::Truth { a } => {
            let mut s = uni()[*a].stmts(&va(), &scratch());
            s.push(Stmt::If { cond: var(&va()), then: vec![say(strlit("T"))], els: Some(vec![say(strlit("F"))]) });
            s.push(say(un(UnOp::Not, var(&va()))));
            s.push(Stmt::Until { cond: var(&va()), body: vec![say(strlit("once")), Stmt::Break] });
            (Program::single(s), String::new())
        }
        Case::SelfCmp { a } => {
            let (x, y, z) = (va(), vb(), simple("vc"));
            let mut s = uni()[*a].stmts(&x, &scratch());
            s.push(Stmt::Assign { dest: Lhs::Ident(Ident::Name(y.clone())), value: vec![var(&x)], op: None });
            s.extend(uni()[*a].stmts(&z, &scratch()));
            let pairs = [(&x, &x), (&x, &y), (&y, &x), (&x, &z)];
            for (l, r) in pairs {
                s.push(say(bin(BinOp::Eq, var(l), var(r))));
                s.push(say(bin(BinOp::NotEq, var(l), var(r))));
            }
            // holders of the value: [x, x] against [x, y]
            let (h1, h2) = (simple("hone"), simple("htwo"));
            s.push(Stmt::Push { array: pvar(&h1), value: Some(PushRhs::List(vec![var(&x), var(&x)])) });
            s.push(Stmt::Push { array: pvar(&h2), value: Some(PushRhs::List(vec![var(&x), var(&y)])) });
            s.push(say(bin(BinOp::Eq, var(&h1), var(&h2))));
            s.push(say(bin(BinOp::Eq, var(&h1), var(&h1))));
            // orderings last: they are runtime errors for some kinds
            for (l, r) in pairs {
                s.push(say(bin(BinOp::LessEq, var(l), var(r))));
                s.push(say(bin(BinOp::Greater, var(l), var(r))));
            }
            (Program::single(s), String::new())
        }
        Case::Nested { prog, stdin } => (prog.clone(), stdin.clone()),
    }
}

fn kind_name(k: Kind) -> &'static str {
    match k {
        Kind::Myst => "Myst",
        Kind::Null => "Null",
        Kind::Bool => "Bool",
        Kind::Num => "Num",
        Kind::Str => "Str",
        Kind::Arr => "Arr",
    }
}

fn gen_nested(t: &mut Tape) -> Case {
    let mut g = SynGen::new(t, SynCfg { name_pool: 5, max_expr_depth: 5, ..SynCfg::default() });
    let names = g.names.clone();
    let funcs = g.funcs.clone();
    let mut s: Vec<Stmt> = vec![];
    // echo functions of arity 1..3: say a marker, give back the first argument
    for (i, f) in funcs.iter().enumerate() {
        let params: Vec<Name> = (0..=i).map(|k| simple(&format!("prm{}", ["a", "b", "c"][k]))).collect();
        s.push(Stmt::Function {
            name: f.clone(),
            params: params.clone(),
            body: vec![say(strlit(&format!("<{}>", i + 1))), Stmt::Return { value: var(&params[0]) }],
        });
    }
    let u = uni();
    let scr = scratch();
    for n in &names {
        let k = g.t.pick(u.len());
        s.extend(u[k].stmts(n, &scr));
    }
    let pos = g.t.pick(9);
    // the last element of a multi-element list cannot contain nested lists
    let e = g.expr(Ctx { no_lists: pos == 3 || pos == 8, ..Ctx::new(5) });
    let r = res();
    match pos {
        0 => s.push(say(e)),
        1 => {
            s.push(put(e, &r));
            s.extend(probe(var(&r)));
        }
        2 => {
            s.push(Stmt::If { cond: e, then: vec![say(strlit("then"))], els: Some(vec![say(strlit("else"))]) });
        }
        3 => {
            // compound assignment with a list
            let op = *g.t.choose(&[BinOp::Plus, BinOp::Minus, BinOp::Multiply, BinOp::Divide]);
            let dest = names[0].clone();
            let e2 = g.unary(Ctx { no_trailing_call: true, no_lists: true, ..Ctx::new(3) });
            s.push(Stmt::Assign { dest: Lhs::Ident(Ident::Name(dest.clone())), value: vec![e2, e], op: Some(op) });
            s.extend(probe(var(&dest)));
        }
        4 => {
            s.push(Stmt::Push { array: pvar(&r), value: Some(PushRhs::List(vec![e])) });
            s.extend(probe(Expr::Primary(Primary::Subscript(Box::new(pvar(&r)), Box::new(Primary::Lit(Lit::Num(0.0)))))));
        }
        5 => {
            s.push(Stmt::While { cond: e, body: vec![say(strlit("loop")), Stmt::Break] });
            s.push(say(strlit("after")));
        }
        7 | 8 => {
            // compound assignment to an array element (also of a variable that holds no array, or nothing at all), its
            // operands free to read, roll or call: the element is read first, then the operands left to right
            let op = *g.t.choose(&[BinOp::Plus, BinOp::Minus, BinOp::Multiply, BinOp::Divide]);
            let dest = if g.t.chance(1, 8) { simple("neverassigned") } else { names[g.t.pick(names.len())].clone() };
            let idx = match g.t.pick(4) {
                0 => Primary::Lit(Lit::Num(0.0)),
                1 => Primary::Lit(Lit::Num(1.0)),
                2 => Primary::Lit(Lit::Str("k".into())),
                _ => Primary::Lit(Lit::Num(2.0)),
            };
            let mut value = vec![];
            if pos == 8 {
                value.push(g.unary(Ctx { no_trailing_call: true, no_lists: true, ..Ctx::new(3) }));
            }
            // the last element of a multi-element list cannot contain nested lists
            value.push(if pos == 8 { g.expr(Ctx { no_lists: true, ..Ctx::new(3) }) } else { e });
            let el = Primary::Subscript(Box::new(pvar(&dest)), Box::new(idx.clone()));
            s.push(Stmt::Assign { dest: Lhs::Subscript(Box::new(pvar(&dest)), Box::new(idx)), value, op: Some(op) });
            s.extend(probe(Expr::Primary(el)));
            s.push(say(var(&dest)));
        }
        _ => {
            // return position
            let f = simple("retfn");
            let p = simple("prmz");
            s.push(Stmt::Function { name: f.clone(), params: vec![p], body: vec![Stmt::Return { value: e }] });
            s.push(put(Expr::Primary(Primary::Call(f, vec![num(0.0)])), &r));
            s.extend(probe(var(&r)));
        }
    }
    let stdin = String::new();
    Case::Nested { prog: Program::single(s), stdin }
}

impl Prop for C03 {
    type Case = Case;
    fn id(&self) -> &'static str {
        "C03"
    }
    fn rule(&self) -> String {
        format!(
            "(i) exhaustive: 13 binary operators x all ordered pairs of a {n}-value universe, 2 unary operators x {n}, 4 compound assignments x {n}^2, \
             build/knock by 1..4 x {n}, truthiness (if / not / until) x {n}; each result observed through a probe triple that separates the six kinds. \
             (ii) random nested expressions (depth <= 5, list operands, calls to marker-printing functions, pronouns, subscripts, roll) over \
             variables initialised from the universe, in say / put / if / while / compound-let / compound-let on an array element / rock / return position. \
             non-trivial: every table cell; nested cases with >= 2 operators or an operator applied to two different kinds; distinct by case",
            n = uni().len()
        )
    }
    fn assumptions(&self) -> Vec<String> {
        vec![
            "reference model (engine-core::model) transcribes the coercion tables of DESIGN.md Appendix A; f64 formatting/parsing by std is trusted".into(),
            "error kinds are not compared, only success vs runtime error and the exact output".into(),
        ]
    }
    fn tape_len(&self, _t: Tier) -> usize {
        300
    }
    fn cases(&self, t: Tier) -> usize {
        t.pick(300_000, 10_000_000)
    }
    fn generate(&self, t: &mut Tape) -> Case {
        gen_nested(t)
    }
    fn fixed_cases(&self, _t: Tier) -> (Vec<Case>, bool) {
        let n = uni().len();
        let mut v = Vec::new();
        for op in BinOp::ALL {
            for a in 0..n {
                for b in 0..n {
                    v.push(Case::Cell { op, a, b });
                }
            }
        }
        for op in [UnOp::Minus, UnOp::Not] {
            for a in 0..n {
                v.push(Case::Unary { op, a });
            }
        }
        for op in [BinOp::Plus, BinOp::Minus, BinOp::Multiply, BinOp::Divide] {
            for a in 0..n {
                for b in 0..n {
                    v.push(Case::Compound { op, a, b });
                }
            }
        }
        for inc in [true, false] {
            for amount in [1, 2, 3, 4, 255, 256, 257, 300] {
                for a in 0..n {
                    v.push(Case::IncDec { inc, amount, a });
                }
            }
        }
        for a in 0..n {
            v.push(Case::Truth { a });
        }
        for a in 0..n {
            v.push(Case::SelfCmp { a });
        }
        (v, true)
    }
    fn check(&self, c: &Case) -> Outcome {
        let (prog, stdin) = program_of(c);
        let d = differential(&prog, &DiffOpts { stdin: &stdin, ..DiffOpts::default() });
        match to_outcome(d) {
            Err(o) => o,
            Ok((model, _src, mut o)) => {
                let mut labels: Vec<String> = vec![];
                match c {
                    Case::Cell { op, a, b } | Case::Compound { op, a, b } => {
                        let ka = uni()[*a].value().kind();
                        let kb = uni()[*b].value().kind();
                        let tag = if matches!(c, Case::Cell { .. }) { "cell" } else { "compound" };
                        labels.push(format!("{}:{:?}:{}:{}", tag, op, kind_name(ka), kind_name(kb)));
                        o.nontrivial = true;
                    }
                    Case::Unary { op, a } => {
                        labels.push(format!("unary:{:?}:{}", op, kind_name(uni()[*a].value().kind())));
                        o.nontrivial = true;
                    }
                    Case::IncDec { a, .. } => {
                        labels.push(format!("incdec:{}", kind_name(uni()[*a].value().kind())));
                        o.nontrivial = true;
                    }
                    Case::Truth { a } => {
                        labels.push(format!("truth:{}", kind_name(uni()[*a].value().kind())));
                        o.nontrivial = true;
                    }
                    Case::SelfCmp { a } => {
                        labels.push(format!("self_comparison:{}", kind_name(uni()[*a].value().kind())));
                        o.nontrivial = true;
                    }
                    Case::Nested { prog, .. } => {
                        labels.push("nested".into());
                        let ops: usize = prog.blocks.iter().flatten().map(stmt_ops).sum();
                        o.nontrivial = model.trace.mixed_kind_ops > 0 || ops >= 2;
                        if model.trace.mixed_kind_ops > 0 {
                            labels.push("nested:mixed_kinds".into());
                        }
                        if model.trace.calls > 0 {
                            labels.push("nested:call_executed".into());
                        }
                        if model.trace.pronoun_reads > 0 {
                            labels.push("nested:pronoun".into());
                        }
                    }
                }
                labels.push(if model.ok() { "outcome:ok".into() } else { "outcome:runtime_error".into() });
                o.labels = labels;
                o
            }
        }
    }
    fn sample(&self, c: &Case) -> Value {
        let (prog, stdin) = program_of(c);
        let label = match c {
            Case::Cell { op, a, b } => format!("{} {:?} {}", uni()[*a].label, op, uni()[*b].label),
            Case::Compound { op, a, b } => format!("let {} be {:?} {}", uni()[*a].label, op, uni()[*b].label),
            Case::Unary { op, a } => format!("{:?} {}", op, uni()[*a].label),
            Case::IncDec { inc, amount, a } => format!("{} {} by {}", if *inc { "build" } else { "knock" }, uni()[*a].label, amount),
            Case::Truth { a } => format!("truthiness of {}", uni()[*a].label),
            Case::SelfCmp { a } => format!("{} compared with itself, a copy and a twin", uni()[*a].label),
            Case::Nested { .. } => "nested".into(),
        };
        json!({ "what": label, "src": render_canonical(&prog), "stdin": stdin })
    }
    fn expected_labels(&self) -> Vec<String> {
        let kinds = ["Myst", "Null", "Bool", "Num", "Str", "Arr"];
        let mut v = vec![];
        for op in BinOp::ALL {
            for a in kinds {
                for b in kinds {
                    v.push(format!("cell:{:?}:{}:{}", op, a, b));
                }
            }
        }
        v.push("nested:mixed_kinds".into());
        v.push("nested:call_executed".into());
        v.push("nested:pronoun".into());
        v
    }
}

fn stmt_ops(s: &Stmt) -> usize {
    match s {
        Stmt::Output { value } | Stmt::Return { value } => value.op_count(),
        Stmt::Assign { value, .. } => value.iter().map(|e| e.op_count()).sum(),
        Stmt::If { cond, .. } | Stmt::While { cond, .. } | Stmt::Until { cond, .. } => cond.op_count(),
        Stmt::Push { value: Some(PushRhs::List(es)), .. } => es.iter().map(|e| e.op_count()).sum(),
        Stmt::Function { body, .. } => body.iter().map(stmt_ops).sum(),
        _ => 0,
    }
}
