//! C11 — poetic literals denote the number or string their words spell.
//! Oracle: independent digit rule -> decimal numeral -> correctly rounded f64 (std), and byte-exact strings.

use crate::diff::{differential, to_outcome, DiffOpts};
use crate::harness::{Outcome, Prop, Tier};
use crate::run::{exec_rrss, fnv_str, guarded, parse_rrss, Caught, Limits as RLimits};
use engine_core::ast::*;
use engine_core::gen::names;
use engine_core::gen::poetic::{closed_on_line, extreme_literal, literal, string_text, PoeticCfg};
use engine_core::gen::syntax::{Ctx, Lead, SynCfg, SynGen};
use engine_core::model::poetic_numeral;
use engine_core::render::{render, RenderOpts};
use engine_core::tape::Tape;
use engine_core::universe::probe;
use serde::{Deserialize, Serialize};
use serde_json::{json, Value};

pub struct C11;

#[derive(Clone, Debug, Serialize, Deserialize)]
pub enum Dest {
    Var(Name),
    Pronoun(Name),
    Element(Name),
    Rock(Name),
}

#[derive(Clone, Debug, Serialize, Deserialize)]
pub enum Case {
    Number { dest: Dest, elems: Vec<PoeticElem>, spelling: Vec<u32> },
    Str { dest: Dest, text: String, spelling: Vec<u32>, following: Vec<String> },
    Expr { prog: Program },
}

const LAYOUT: RenderOpts = RenderOpts { alias: true, case: true, noise: true, comments: true, layout: true, crlf: false };

/// "a few units in the last place": rrss sums digit x 10^k term by term, largest term first; each product and each
/// partial sum rounds once and the terms fall off geometrically, so the error stays within a few ulp of the sum
/// whatever the length; the powers 10^k themselves (repeated squaring) are off by up to ~5 ulp for |k| near 300.
/// Measured over 4M literals incl. 700-digit ones: see the `ulp:` labels in the evidence.
const TOLERANCE_ULP: u64 = 16;

fn ulp_distance(a: f64, b: f64) -> u64 {
    if a == b {
        return 0;
    }
    if a.is_nan() || b.is_nan() || a.is_sign_negative() != b.is_sign_negative() {
        return u64::MAX;
    }
    let (x, y) = (a.to_bits() as i128, b.to_bits() as i128);
    (x - y).unsigned_abs() as u64
}

fn build(dest: &Dest, stmt_for: impl Fn(Lhs) -> Stmt, rock: Option<Stmt>) -> (Vec<Stmt>, Expr) {
    let one = Primary::Lit(Lit::Num(1.0));
    match dest {
        Dest::Var(n) => (vec![stmt_for(Lhs::Ident(Ident::Name(n.clone())))], var(n)),
        Dest::Pronoun(n) => (vec![put(num(0.0), n), stmt_for(Lhs::Ident(Ident::Pronoun))], var(n)),
        Dest::Element(n) => (
            vec![stmt_for(Lhs::Subscript(Box::new(pvar(n)), Box::new(one.clone())))],
            Expr::Primary(Primary::Subscript(Box::new(pvar(n)), Box::new(one))),
        ),
        Dest::Rock(n) => match rock {
            Some(r) => (vec![r], Expr::Primary(Primary::Subscript(Box::new(pvar(n)), Box::new(Primary::Lit(Lit::Num(0.0)))))),
            None => (vec![stmt_for(Lhs::Ident(Ident::Name(n.clone())))], var(n)),
        },
    }
}

fn find_literal(p: &rrss::frontend::ast::Program) -> Option<&rrss::frontend::ast::PoeticNumberLiteral> {
    use rrss::frontend::ast as r;
    for b in &p.code {
        if let r::Block::NonEmpty(stmts) = b {
            for s in stmts {
                match s {
                    r::Statement::PoeticAssignment(r::PoeticAssignment::Number(n)) => {
                        if let r::PoeticNumberAssignmentRHS::PoeticNumberLiteral(l) = &n.rhs {
                            return Some(l);
                        }
                    }
                    r::Statement::ArrayPush(a) => {
                        if let Some(r::ArrayPushRHS::PoeticNumberLiteral(l)) = &a.value {
                            return Some(l);
                        }
                    }
                    _ => {}
                }
            }
        }
    }
    None
}

fn check_number(dest: &Dest, elems: &[PoeticElem], spelling: &[u32]) -> Result<(Outcome, Vec<String>), Outcome> {
    let name = match dest {
        Dest::Var(n) | Dest::Pronoun(n) | Dest::Element(n) | Dest::Rock(n) => n.clone(),
    };
    let rock = Stmt::Push { array: pvar(&name), value: Some(PushRhs::Poetic(elems.to_vec())) };
    let (mut stmts, read) = build(dest, |l| Stmt::PoeticNum { dest: l, rhs: PoeticRhs::Literal(elems.to_vec()) }, Some(rock));
    stmts.push(say(read));
    let prog = Program::single(stmts);
    let src = render(&prog, spelling, LAYOUT).text;
    let tree = match parse_rrss(&src, Some(crate::run::parse_fuel_for(&src))) {
        Caught::Done(Ok(t)) => t,
        // every generated element list is a poetic literal by the statement's rules (words, keywords used as words,
        // suffixes, hyphenated parts, periods, commas): a rejection means it denotes nothing at all
        Caught::Done(Err(e)) => {
            return Err(Outcome::fail(format!(
                "poetic literal value: the literal is rejected ({}) although its words spell {}\n{}",
                e.text,
                poetic_numeral(elems),
                src
            )))
        }
        Caught::Panic(p) => return Err(Outcome::fail(format!("parse panicked: {}\n{}", p, src))),
        Caught::Budget(_) => return Err(Outcome::fail(format!("parse ran out of fuel\n{}", src))),
    };
    let numeral = poetic_numeral(elems);
    let expected: f64 = numeral.parse().unwrap();
    if crate::adapt::program(&tree) != prog {
        // The text was not read as the poetic literal it was rendered from. Whether it still denotes the number its
        // words spell is decided by running it (what is a literal and what an expression is this property's subject).
        let (c, out) = exec_rrss(&tree, b"", RLimits { exec_fuel: Some(100), alloc_cap: Some(1_000_000) });
        let printed = out.stdout_str();
        let ok = matches!(c, Caught::Done(())) && out.ok() && printed.trim_end_matches('\n').parse::<f64>().map_or(false, |v| ulp_distance(v, expected) <= TOLERANCE_ULP);
        if !ok {
            return Err(Outcome::fail(format!(
                "poetic literal value: the words spell {} but the program prints {:?} (result {:?}); the right-hand side was not parsed as the poetic literal it is: {}\n{}",
                numeral,
                printed,
                out.err,
                crate::props::c02::first_difference(&prog, &crate::adapt::program(&tree)),
                src
            )));
        }
        return Err(Outcome::discard("render_mismatch:tree_but_value_agrees"));
    }
    let digits = numeral.chars().filter(|c| c.is_ascii_digit()).count();
    let has_point = elems.iter().any(|e| matches!(e, PoeticElem::Dot));
    let lit = find_literal(&tree).ok_or_else(|| Outcome::fail(format!("no poetic literal in the parsed tree\n{}", src)))?;
    let computed = match guarded(|| lit.compute_value()) {
        Caught::Done(v) => v,
        Caught::Panic(p) => return Err(Outcome::fail(format!("poetic literal value: compute_value panicked: {}\n{}", p, src))),
        Caught::Budget(b) => return Err(Outcome::fail(format!("compute_value budget {}", b))),
    };
    let (c, out) = exec_rrss(&tree, b"", RLimits { exec_fuel: Some(100), alloc_cap: Some(1_000_000) });
    match c {
        Caught::Done(()) => {}
        Caught::Panic(p) => return Err(Outcome::fail(format!("poetic literal value: the interpreter panicked: {}\n{}", p, src))),
        Caught::Budget(b) => return Err(Outcome::fail(format!("budget {}\n{}", b, src))),
    }
    if let Some(e) = &out.err {
        return Err(Outcome::fail(format!("poetic literal value: program failed with {:?}\n{}", e, src)));
    }
    let printed_text = out.stdout_str();
    let printed: f64 = match printed_text.trim_end_matches('\n').parse() {
        Ok(v) => v,
        Err(_) => return Err(Outcome::fail(format!("poetic literal value: printed {:?} is not a number\n{}", printed_text, src))),
    };
    if printed.to_bits() != computed.to_bits() && !(printed.is_nan() && computed.is_nan()) {
        return Err(Outcome::fail(format!("poetic literal value: printed {} but compute_value() = {}\n{}", printed, computed, src)));
    }
    let exact = !has_point && expected < 9007199254740992.0;
    let tolerance: u64 = if exact { 0 } else { TOLERANCE_ULP };
    let d = ulp_distance(computed, expected);
    if d > tolerance {
        return Err(Outcome::fail(format!(
            "poetic literal value differs from the numeral its words spell: words spell {} (= {:e}), rrss computes {:e} ({} ulp apart, tolerance {})\n{}",
            numeral, expected, computed, d, tolerance, src
        )));
    }
    // ---- in company: the same literal between other literals in one run denotes what it denotes alone.  The company
    // is its own shadow (every word replaced by as many ASCII letters as the word has bytes: another number as soon as a
    // word holds an apostrophe or a non-ASCII letter) and a fixed literal, before and after it.
    let special = elems.iter().any(|e| matches!(e, PoeticElem::Word(w) | PoeticElem::Suffix(w) if !w.is_ascii() || w.trim_start_matches('\'').contains('\'')));
    let mut company = false;
    if elems.len() <= 80 && (special || computed.to_bits() % 4 == 0) {
        let shadow: Vec<PoeticElem> = elems
            .iter()
            .map(|e| match e {
                PoeticElem::Word(w) if w.starts_with(|c: char| c.is_ascii_digit()) => PoeticElem::Word(w.clone()),
                PoeticElem::Word(w) => PoeticElem::Word("x".repeat(w.len())),
                PoeticElem::Suffix(x) if x.starts_with('-') => PoeticElem::Suffix(format!("-{}", "x".repeat(x.len() - 1))),
                other => other.clone(),
            })
            .collect();
        let other_name = simple("companion");
        let fixed = vec![PoeticElem::Word("a".into()), PoeticElem::Word("lovestruck".into()), PoeticElem::Word("ladykiller".into())];
        let poetic = |n: &Name, e: &[PoeticElem]| Stmt::PoeticNum { dest: Lhs::Ident(Ident::Name(n.clone())), rhs: PoeticRhs::Literal(e.to_vec()) };
        let (mine, read) = build(dest, |l| Stmt::PoeticNum { dest: l, rhs: PoeticRhs::Literal(elems.to_vec()) }, Some(Stmt::Push { array: pvar(&name), value: Some(PushRhs::Poetic(elems.to_vec())) }));
        let mut st = vec![poetic(&other_name, &shadow), say(var(&other_name)), poetic(&other_name, &fixed), say(var(&other_name))];
        st.extend(mine.clone());
        st.push(say(read.clone()));
        st.push(poetic(&other_name, &shadow));
        st.push(say(var(&other_name)));
        st.push(poetic(&simple("again"), elems));
        st.push(say(var(&simple("again"))));
        let prog2 = Program::single(st);
        let src2 = render(&prog2, &[], LAYOUT).text;
        if let Caught::Done(Ok(tree2)) = parse_rrss(&src2, Some(crate::run::parse_fuel_for(&src2))) {
            if crate::adapt::program(&tree2) == prog2 {
                let (c2, out2) = exec_rrss(&tree2, b"", RLimits { exec_fuel: Some(100), alloc_cap: Some(1_000_000) });
                let text2 = out2.stdout_str();
                let lines: Vec<&str> = text2.lines().collect();
                let alone = printed_text.trim_end_matches('\n');
                if !matches!(c2, Caught::Done(())) || !out2.ok() || lines.len() != 5 {
                    return Err(Outcome::fail(format!("poetic literal value: a program of five poetic literals failed or printed {} lines: {:?} {:?}\n{}", lines.len(), c2, out2.err, src2)));
                }
                if lines[2] != alone || lines[4] != alone {
                    return Err(Outcome::fail(format!(
                        "poetic literal value: alone the literal denotes {} but between other literals in one run it denotes {} and then {}\n{}",
                        alone, lines[2], lines[4], src2
                    )));
                }
                if lines[1] != "100" || lines[0] != lines[3] {
                    return Err(Outcome::fail(format!("poetic literal value: companion literals print {:?} (the second must be 100, the first and fourth are the same literal)\n{}", lines, src2)));
                }
                company = true;
            }
        }
    }
    let mut o = Outcome::pass();
    o.digest = computed.to_bits();
    let mut labels = vec![];
    if company {
        labels.push("in_company_of_other_literals".to_string());
    }
    if company && special {
        labels.push("in_company_of_its_ascii_shadow".to_string());
    }
    let n_words = elems.iter().filter(|e| matches!(e, PoeticElem::Word(_))).count();
    let mut add = |b: bool, s: &str| {
        if b {
            labels.push(s.to_string())
        }
    };
    add(true, "number");
    add(has_point, "period");
    add(elems.iter().filter(|e| matches!(e, PoeticElem::Dot)).count() >= 2, "several_periods");
    add(elems.iter().any(|e| matches!(e, PoeticElem::Suffix(s) if s.starts_with('-'))), "hyphen");
    add(elems.iter().any(|e| matches!(e, PoeticElem::Suffix(s) if s.starts_with('\''))), "apostrophe_suffix");
    add(elems.iter().any(|e| matches!(e, PoeticElem::Word(w) if w.contains('\''))), "apostrophe_in_word");
    add(elems.iter().any(|e| matches!(e, PoeticElem::Word(w) if engine_core::model::poetic_len(w) % 10 == 0)), "length_multiple_of_10");
    add(elems.iter().any(|e| matches!(e, PoeticElem::Word(w) if engine_core::kw::is_keyword(w))), "keyword_as_word");
    add(elems.iter().any(|e| matches!(e, PoeticElem::Word(w) if !w.is_ascii())), "non_ascii");
    add(matches!(elems.first(), Some(PoeticElem::Suffix(_))) || elems.windows(2).any(|w| matches!(w, [PoeticElem::Dot, PoeticElem::Suffix(_)])), "orphan_suffix");
    add(digits > 17, "more_than_17_digits");
    add(digits > 100, "more_than_100_digits");
    add(exact, "exact_integer");
    add(d > 0, "inexact_by_some_ulp");
    add(true, match d {
        0 => "ulp:0",
        1 => "ulp:1",
        2..=4 => "ulp:2-4",
        5..=8 => "ulp:5-8",
        _ => "ulp:9-16",
    });
    add(elems.iter().any(|e| matches!(e, PoeticElem::Word(w) if w.chars().all(|c| c.is_ascii_digit()))), "numeral_as_word");
    add(matches!(elems.first(), Some(PoeticElem::Word(w)) if ["without", "minus", "not"].contains(&w.to_lowercase().as_str())), "starts_with_operator_word");
    add(digits > 308, "more_than_308_digits");
    add(expected.is_infinite(), "value_overflows_to_infinity");
    add(expected != 0.0 && expected.abs() < f64::MIN_POSITIVE, "subnormal_value");
    add(expected == 0.0 && digits > 300, "long_zero");
    add(matches!(dest, Dest::Rock(_)), "rock_like");
    add(matches!(dest, Dest::Pronoun(_)), "pronoun_dest");
    add(matches!(dest, Dest::Element(_)), "element_dest");
    o.nontrivial = n_words >= 2 || labels.len() > 2;
    Ok((o, labels))
}

fn check_string(dest: &Dest, text: &str, spelling: &[u32], following: &[String]) -> Result<(Outcome, Vec<String>), Outcome> {
    let (mut stmts, read) = build(dest, |l| Stmt::PoeticStr { dest: l, text: text.to_string() }, None);
    stmts.push(say(read));
    for f in following {
        stmts.push(say(strlit(f)));
    }
    let prog = Program::single(stmts);
    // only keyword alias/case and layout vary: the text itself is copied verbatim
    let src = render(&prog, spelling, RenderOpts::CLEAN).text;
    let tree = match parse_rrss(&src, Some(crate::run::parse_fuel_for(&src))) {
        Caught::Done(Ok(t)) => t,
        Caught::Done(Err(e)) => return Err(Outcome::fail(format!("poetic string: line text {:?} is rejected: {}\n{}", text, e.text, src))),
        Caught::Panic(p) => return Err(Outcome::fail(format!("parse panicked: {}\n{}", p, src))),
        Caught::Budget(_) => return Err(Outcome::fail(format!("parse ran out of fuel\n{}", src))),
    };
    let (c, out) = exec_rrss(&tree, b"", RLimits { exec_fuel: Some(100), alloc_cap: Some(1_000_000) });
    match c {
        Caught::Done(()) => {}
        Caught::Panic(p) => return Err(Outcome::fail(format!("poetic string: the interpreter panicked: {}\n{}", p, src))),
        Caught::Budget(b) => return Err(Outcome::fail(format!("budget {}\n{}", b, src))),
    }
    let mut expected = format!("{}\n", text);
    for f in following {
        expected.push_str(f);
        expected.push('\n');
    }
    if out.err.is_some() || out.stdout_str() != expected {
        return Err(Outcome::fail(format!(
            "poetic string differs from the text after `says `: expected output {:?}, got {:?} (result {:?})\n{}",
            expected,
            out.stdout_str(),
            out.err,
            src
        )));
    }
    let mut o = Outcome::pass();
    o.digest = fnv_str(&out.stdout_str());
    let mut labels = vec!["string".to_string()];
    let mut add = |b: bool, s: &str| {
        if b {
            labels.push(s.to_string())
        }
    };
    add(text.starts_with(' '), "leading_blank");
    add(text.ends_with(' ') || text.ends_with('\t'), "trailing_blank");
    add(text.contains('"'), "quotes");
    add(text.contains('('), "parentheses");
    add(!text.is_ascii(), "non_ascii");
    add(text.is_empty(), "empty_text");
    o.nontrivial = text.len() >= 2;
    Ok((o, labels))
}

impl Prop for C11 {
    type Case = Case;
    fn id(&self) -> &'static str {
        "C11"
    }
    fn rule(&self) -> String {
        "numbers: element lists of 1-300 words (random letter words of length 1-25 with multiples of 10 weighted up, apostrophes inside, keywords and aliases in any case, non-ASCII letters), 's/'re suffixes (stacked and \
         orphan ones hung on a comment), hyphenated parts, periods (several, leading, trailing) and commas anywhere, rendered with random spacing/noise/comments; 3% literals that start with a keyword able to open an expression (without, minus, not, roll, a pronoun, a name) followed by numerals / literal words / names; 4% extreme literals of up to ~430 digits on either side of the period with runs of zero digits (values beyond 10^308, below 10^-308, subnormal, zero); destination a variable, a pronoun, an array element or `rock X like`. \
         strings: line texts of atoms incl. leading/trailing blanks, quotes, parentheses (always closed on the line), comment- and statement-looking text, punctuation, non-ASCII, followed by further lines that must survive. \
         expressions: right-hand sides that start with a literal word or -number (compared with the reference model). \
         non-trivial = >= 2 words or any of {suffix, hyphen, period, length multiple of 10, keyword, non-ASCII}; strings of >= 2 bytes; distinct by case"
            .into()
    }
    fn assumptions(&self) -> Vec<String> {
        vec![
            "reference value = str::parse::<f64> (correctly rounded, std) of the decimal numeral built by the digit rule; tolerance 0 ulp for integers < 2^53 without period, else 16 ulp (measured maximum in the ulp: labels)".into(),
            "a numeral inside a poetic literal counts as a word of its number of characters (rrss's rule for every token without blanks or ignorable punctuation; the statement is silent): generated only in the 3% boundary class".into(),
            "poetic strings are bounded to texts whose quotes/parentheses are closed on the line (finding F11, outside the property's quantifier)".into(),
        ]
    }
    fn tape_len(&self, _t: Tier) -> usize {
        1900
    }
    fn cases(&self, t: Tier) -> usize {
        t.pick(500_000, 4_000_000)
    }
    fn generate(&self, t: &mut Tape) -> Case {
        let spelling = super::c02::take_spelling(t, 40);
        let n = names::any(t);
        let dest = match t.weighted(&[55, 15, 15, 15]) {
            0 => Dest::Var(n),
            1 => Dest::Pronoun(n),
            2 => Dest::Element(n),
            _ => Dest::Rock(n),
        };
        match t.weighted(&[53, 28, 12, 4, 3]) {
            4 => {
                // the boundary of the third sentence: a right-hand side that starts with a keyword which could open an
                // expression (unary minus / not spelled as words, roll, a pronoun, a name) but is neither a literal word
                // nor `-` + number is a poetic literal, whatever follows (a numeral, a literal word, a name)
                let first = *t.choose(&["without", "minus", "not", "roll", "pop", "it", "they", "Without", "MINUS", "Not", "Gina", "non"]);
                let mut elems = vec![PoeticElem::Word(first.to_string())];
                for _ in 0..1 + t.pick(3) {
                    let w = *t.choose(&["5", "273", "0", "12", "true", "nothing", "x", "Tommy", "mysterious", "right", "1", "empty", "minus", "42"]);
                    elems.push(PoeticElem::Word(w.to_string()));
                    // a period glued to a numeral would join it (`5.` is one number token)
                    if t.chance(1, 6) && !w.chars().all(|c| c.is_ascii_digit()) {
                        elems.push(PoeticElem::Dot);
                    }
                }
                Case::Number { dest, elems, spelling: spelling.into_iter().take(4).collect() }
            }
            0 => Case::Number { dest, elems: literal(t, PoeticCfg { orphan_suffix: true, max_digits_each_side: 300 }), spelling },
            3 => Case::Number { dest, elems: extreme_literal(t), spelling: spelling.into_iter().take(6).collect() },
            1 => {
                let text = string_text(t);
                let following = (0..t.pick(3)).map(|i| format!("after{}", i)).collect();
                Case::Str { dest, text, spelling, following }
            }
            _ => {
                let mut g = SynGen::new(t, SynCfg { name_pool: 2, max_expr_depth: 3, ..SynCfg::default() });
                let v = g.names[0].clone();
                let w = g.names[1].clone();
                let e = g.expr(Ctx { lead: Lead::Literal, ..Ctx::new(3) });
                let mut s = vec![put(num(3.0), &w), Stmt::PoeticNum { dest: Lhs::Ident(Ident::Name(v.clone())), rhs: PoeticRhs::Expr(e) }];
                s.extend(probe(var(&v)));
                Case::Expr { prog: Program::single(s) }
            }
        }
    }
    fn check(&self, c: &Case) -> Outcome {
        let r = match c {
            Case::Number { dest, elems, spelling } => check_number(dest, elems, spelling),
            Case::Str { dest, text, spelling, following } => {
                if text.contains('\n') {
                    return Outcome::discard("line_break_in_text");
                }
                let _ = closed_on_line(text);
                check_string(dest, text, spelling, following)
            }
            Case::Expr { prog } => match to_outcome(differential(prog, &DiffOpts::default())) {
                Ok((_m, _src, mut o)) => {
                    o.nontrivial = true;
                    Ok((o, vec!["expression_rhs".to_string()]))
                }
                Err(o) => Err(o),
            },
        };
        match r {
            Ok((mut o, labels)) => {
                o.labels = labels;
                o
            }
            Err(o) => o,
        }
    }
    fn sample(&self, c: &Case) -> Value {
        match c {
            Case::Number { elems, .. } => json!({ "numeral": poetic_numeral(elems), "elems": elems.len(), "first": format!("{:?}", elems.iter().take(6).collect::<Vec<_>>()) }),
            Case::Str { text, .. } => json!({ "says": text }),
            Case::Expr { prog } => json!({ "src": engine_core::render::render_canonical(prog) }),
        }
    }
    fn expected_labels(&self) -> Vec<String> {
        [
            "number", "string", "expression_rhs", "period", "several_periods", "hyphen", "apostrophe_suffix", "apostrophe_in_word", "length_multiple_of_10", "keyword_as_word", "non_ascii",
            "orphan_suffix", "numeral_as_word", "starts_with_operator_word", "more_than_308_digits", "value_overflows_to_infinity", "subnormal_value", "long_zero", "more_than_17_digits", "more_than_100_digits", "exact_integer", "inexact_by_some_ulp", "rock_like", "pronoun_dest", "element_dest", "leading_blank", "trailing_blank",
            "quotes", "parentheses", "empty_text",
        ]
        .iter()
        .map(|s| s.to_string())
        .collect()
    }
}
