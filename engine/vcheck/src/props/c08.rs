//! C08 — input and output happen once each, in program order, and I/O faults are errors.
//! Oracle: instrumented Read/Write sharing one event log vs the reference model's I/O trace;
//! every writer / reader fault position is enumerated.

use crate::harness::{Outcome, Prop, Tier};
use crate::run::{exec_with, fnv_str, parse_rrss, Caught, Limits as RLimits};
use engine_core::ast::*;
use engine_core::gen::io::IoGen;
use engine_core::model::{self, Io, Limits, Scoping, Stop};
use engine_core::render::render_canonical;
use engine_core::tape::Tape;
use serde::{Deserialize, Serialize};
use serde_json::{json, Value};
use std::io::{Read, Write};
use std::sync::{Arc, Mutex};

pub struct C08;

#[derive(Clone, Debug, Serialize, Deserialize)]
pub struct Case {
    pub prog: Program,
    pub stdin: String,
}

#[derive(Clone, Debug, PartialEq)]
enum Ev {
    /// a write call: bytes accepted, or an error
    W(Result<Vec<u8>, ()>),
    /// a read call: bytes handed out, or an error
    R(Result<Vec<u8>, ()>),
}

type Log = Arc<Mutex<Vec<Ev>>>;

/// error kinds for injected faults: every kind a stream may fail with must stop the program (`Interrupted` is the one
/// kind std retries by contract, so it is not a fault)
const KINDS: &[std::io::ErrorKind] = &[
    std::io::ErrorKind::Other,
    std::io::ErrorKind::BrokenPipe,
    std::io::ErrorKind::PermissionDenied,
    std::io::ErrorKind::WriteZero,
    std::io::ErrorKind::UnexpectedEof,
    std::io::ErrorKind::TimedOut,
    std::io::ErrorKind::ConnectionReset,
    std::io::ErrorKind::WouldBlock,
    std::io::ErrorKind::InvalidData,
    std::io::ErrorKind::NotFound,
    std::io::ErrorKind::InvalidInput,
    std::io::ErrorKind::ConnectionAborted,
];

struct FaultyWriter {
    log: Log,
    accepted: usize,
    fail_at: Option<usize>,
    kind: std::io::ErrorKind,
    /// accept at most this many bytes per call (short writes are legal for any `Write`)
    max_per_call: usize,
}

impl Write for FaultyWriter {
    fn write(&mut self, buf: &[u8]) -> std::io::Result<usize> {
        if buf.is_empty() {
            return Ok(0);
        }
        let room = self.fail_at.map_or(usize::MAX, |k| k.saturating_sub(self.accepted));
        if room == 0 {
            self.log.lock().unwrap().push(Ev::W(Err(())));
            return Err(std::io::Error::new(self.kind, "injected write fault"));
        }
        let n = buf.len().min(room).min(self.max_per_call.max(1));
        self.accepted += n;
        self.log.lock().unwrap().push(Ev::W(Ok(buf[..n].to_vec())));
        Ok(n)
    }
    fn flush(&mut self) -> std::io::Result<()> {
        Ok(())
    }
}

/// hands out at most one line per call, so that a buffering reader cannot read ahead
/// (`max_per_call` < usize::MAX: arbitrary smaller chunks, cutting lines and multi-byte characters anywhere)
struct FaultyReader {
    log: Log,
    data: Vec<u8>,
    pos: usize,
    fail_at: Option<usize>,
    kind: std::io::ErrorKind,
    max_per_call: usize,
    /// hand out whole buffers regardless of line ends (a reader that reads ahead: files, pipes)
    ignore_lines: bool,
}

impl Read for FaultyReader {
    fn read(&mut self, buf: &mut [u8]) -> std::io::Result<usize> {
        if buf.is_empty() {
            return Ok(0);
        }
        if let Some(k) = self.fail_at {
            if self.pos >= k {
                self.log.lock().unwrap().push(Ev::R(Err(())));
                return Err(std::io::Error::new(self.kind, "injected read fault"));
            }
        }
        let rest = &self.data[self.pos..];
        let line_end = if self.ignore_lines { rest.len() } else { rest.iter().position(|b| *b == b'\n').map_or(rest.len(), |p| p + 1) };
        let mut n = line_end.min(buf.len()).min(self.max_per_call.max(1));
        if let Some(k) = self.fail_at {
            n = n.min(k - self.pos);
        }
        buf[..n].copy_from_slice(&rest[..n]);
        self.pos += n;
        self.log.lock().unwrap().push(Ev::R(Ok(rest[..n].to_vec())));
        Ok(n)
    }
}

/// merge the call log into alternating groups: ('W', bytes) / ('R', bytes); calls that moved no bytes are invisible
fn groups(log: &[Ev]) -> Vec<(char, Vec<u8>)> {
    let mut out: Vec<(char, Vec<u8>)> = vec![];
    for e in log {
        let (c, b) = match e {
            Ev::W(Ok(b)) => ('W', b.clone()),
            Ev::R(Ok(b)) => ('R', b.clone()),
            _ => continue,
        };
        if b.is_empty() {
            continue;
        }
        match out.last_mut() {
            Some((lc, lb)) if *lc == c => lb.extend(b),
            _ => out.push((c, b)),
        }
    }
    out
}

fn model_groups(io: &[Io], stdin: &str) -> Vec<(char, Vec<u8>)> {
    let mut out: Vec<(char, Vec<u8>)> = vec![];
    let mut consumed = 0usize;
    for e in io {
        let (c, b): (char, Vec<u8>) = match e {
            Io::Say(t) => ('W', format!("{}\n", t).into_bytes()),
            Io::Listen(Some(l)) => {
                // the line with its terminator, when it has one
                let mut b = l.clone().into_bytes();
                consumed += b.len();
                if stdin.as_bytes().get(consumed) == Some(&b'\n') {
                    b.push(b'\n');
                    consumed += 1;
                }
                ('R', b)
            }
            Io::Listen(None) => ('R', vec![]),
        };
        match out.last_mut() {
            Some((lc, lb)) if *lc == c => lb.extend(b),
            _ => out.push((c, b)),
        }
    }
    // a read group that delivered nothing is invisible in the call log's byte view
    out.retain(|(c, b)| !(*c == 'R' && b.is_empty()));
    // merging may now be needed again
    let mut merged: Vec<(char, Vec<u8>)> = vec![];
    for (c, b) in out {
        match merged.last_mut() {
            Some((lc, lb)) if *lc == c => lb.extend(b),
            _ => merged.push((c, b)),
        }
    }
    merged
}

fn positions(len: usize) -> Vec<usize> {
    if len <= 64 {
        (0..=len).collect()
    } else {
        let mut v: Vec<usize> = (0..64).map(|i| i * len / 63).collect();
        v.push(1);
        v.push(len - 1);
        v.sort();
        v.dedup();
        v
    }
}

struct RunResult {
    log: Vec<Ev>,
    err: Option<(String, String)>,
}

#[derive(Clone, Copy)]
struct Streams {
    wfail: Option<usize>,
    rfail: Option<usize>,
    kind: std::io::ErrorKind,
    write_chunk: usize,
    read_chunk: usize,
    read_ahead: bool,
}

impl Streams {
    const PLAIN: Streams = Streams { wfail: None, rfail: None, kind: std::io::ErrorKind::Other, write_chunk: usize::MAX, read_chunk: usize::MAX, read_ahead: false };
}

fn run_faulty(tree: &rrss::frontend::ast::Program, stdin: &str, wfail: Option<usize>, rfail: Option<usize>, fuel: u64) -> Result<RunResult, String> {
    // the kind of the injected error rotates with the fault position: every kind meets every position over the cases
    let k = wfail.or(rfail).unwrap_or(0);
    run_streams(tree, stdin, Streams { wfail, rfail, kind: KINDS[(k + stdin.len()) % KINDS.len()], ..Streams::PLAIN }, fuel)
}

fn run_streams(tree: &rrss::frontend::ast::Program, stdin: &str, st: Streams, fuel: u64) -> Result<RunResult, String> {
    let log: Log = Arc::new(Mutex::new(vec![]));
    let w = FaultyWriter { log: log.clone(), accepted: 0, fail_at: st.wfail, kind: st.kind, max_per_call: st.write_chunk };
    let r = FaultyReader { log: log.clone(), data: stdin.as_bytes().to_vec(), pos: 0, fail_at: st.rfail, kind: st.kind, max_per_call: st.read_chunk, ignore_lines: st.read_ahead };
    match exec_with(tree, r, w, RLimits { exec_fuel: Some(fuel), alloc_cap: Some(4_000_000) }) {
        Caught::Done(err) => Ok(RunResult { log: log.lock().unwrap().clone(), err }),
        Caught::Panic(p) => Err(format!("rrss panicked: {}", p)),
        Caught::Budget(b) => Err(format!("rrss exceeded the resource bound ({})", b)),
    }
}

fn no_call_after_fault(log: &[Ev]) -> bool {
    match log.iter().position(|e| matches!(e, Ev::W(Err(())) | Ev::R(Err(())))) {
        Some(p) => p + 1 == log.len(),
        None => true,
    }
}

impl Prop for C08 {
    type Case = Case;
    fn id(&self) -> &'static str {
        "C08"
    }
    fn rule(&self) -> String {
        "programs of <= 20 I/O statements (say of markers, variables, concatenations, numbers, every kind, a string with a line break; listen with and without destination, into a variable or an array element) \
         interleaved with assignments, inside loops (1-3 iterations), inside branches that depend on what was read and inside a function that says and listens; input texts of 0-6 lines (empty, blank lines, \
         non-ASCII, 100-300 character lines, with and without final newline); 2.5% echo-until-blank programs over 9-40 KiB of mostly multi-byte input. Each case runs fault-free (call log vs the model's I/O trace) and then once for every writer fault offset 0..len(transcript) and every \
         reader fault offset 0..len(input) incl. failing at EOF (all offsets when <= 64, else 64 spread + the two ends). \
         non-trivial = at least one say and one listen executed, or a fault strictly inside the transcript; distinct by program+input"
            .into()
    }
    fn assumptions(&self) -> Vec<String> {
        vec![
            "the instrumented reader hands out at most one line per read call, so the buffered reader cannot read ahead and log order is program order".into(),
            "the oracle is over bytes, not calls (a say may issue several write calls)".into(),
            "injected faults carry one of 12 error kinds, rotating with the fault position; `Interrupted` is not a fault (std retries it by contract)".into(),
            "six fault-free legs with legal but awkward streams (short writes of 1/3/7 bytes, reads of 1/2/3/5 bytes cutting lines and characters anywhere, read-ahead of the whole input): only the transcript and the outcome are compared there".into(),
            "input is valid UTF-8 without CR directly before LF".into(),
        ]
    }
    fn tape_len(&self, _t: Tier) -> usize {
        300
    }
    fn cases(&self, t: Tier) -> usize {
        t.pick(100_000, 3_000_000)
    }
    fn generate(&self, t: &mut Tape) -> Case {
        let mut g = IoGen::new(t);
        let prog = g.program();
        let stdin = g.stdin();
        Case { prog, stdin }
    }
    fn check(&self, c: &Case) -> Outcome {
        if let Err(e) = c.prog.validate() {
            return Outcome::discard(format!("generator_bug:{}", e));
        }
        let src = render_canonical(&c.prog);
        let m = model::run(&c.prog, &c.stdin, Scoping::Dynamic, Limits { max_str: 300_000, max_out: 2_000_000, ..Limits::default() });
        if !m.judged() {
            return Outcome::discard("budget");
        }
        let tree = match parse_rrss(&src, Some(crate::run::parse_fuel_for(&src))) {
            Caught::Done(Ok(t)) => t,
            _ => return Outcome::discard("render_mismatch:rejected"),
        };
        // a mis-parsed text is C02's subject as such; here it is judged by its I/O behaviour all the same
        let tree_differs = crate::adapt::program(&tree) != c.prog;
        let fuel = 10 * m.steps + 100;
        let ctx = |what: &str| {
            format!("{}\n--- stdin: {:?}\n--- program:\n{}{}", what, c.stdin, src, if tree_differs { "\n--- note: the parser's tree differs from the tree this text was rendered from" } else { "" })
        };
        // ---- fault-free
        let base = match run_faulty(&tree, &c.stdin, None, None, fuel) {
            Ok(r) => r,
            Err(e) => return Outcome::fail(ctx(&e)),
        };
        let got = groups(&base.log);
        let want = model_groups(&m.io, &c.stdin);
        if got != want {
            let show = |g: &Vec<(char, Vec<u8>)>| g.iter().map(|(c, b)| format!("{}{:?}", c, String::from_utf8_lossy(b))).collect::<Vec<_>>().join(" ");
            return Outcome::fail(ctx(&format!("I/O event sequence differs from the reference\n--- expected: {}\n--- rrss:     {}", show(&want), show(&got))));
        }
        if base.err.is_some() != m.result.is_err() {
            return Outcome::fail(ctx(&format!("outcome differs from the reference: {:?} vs {:?}", m.result, base.err)));
        }
        if let Some((v, _)) = &base.err {
            if v.contains("IOError") {
                return Outcome::fail(ctx("I/O error reported although no stream failed"));
            }
        }
        let transcript: Vec<u8> = m.out.clone().into_bytes();
        let mut evals = 1u32;
        let mut digest = fnv_str(&format!("{:?}", got));
        // ---- legal but awkward streams: short writes, reads in small chunks that cut lines and multi-byte characters
        // anywhere, and a reader that hands out everything at once (read-ahead); the transcript and the outcome must
        // not depend on how the streams slice the bytes
        for (wc, rc, ahead) in [(1usize, usize::MAX, false), (3, 1, true), (usize::MAX, 2, true), (7, 3, true), (usize::MAX, 5, true), (usize::MAX, usize::MAX, true)] {
            evals += 1;
            let r = match run_streams(&tree, &c.stdin, Streams { write_chunk: wc, read_chunk: rc, read_ahead: ahead, ..Streams::PLAIN }, fuel) {
                Ok(r) => r,
                Err(e) => return Outcome::fail(ctx(&format!("writer accepts {} bytes per call, reader hands out {} bytes per call: {}", wc, rc, e))),
            };
            let written: Vec<u8> = r.log.iter().filter_map(|e| if let Ev::W(Ok(b)) = e { Some(b.clone()) } else { None }).flatten().collect();
            if written != transcript || r.err.is_some() != m.result.is_err() {
                return Outcome::fail(ctx(&format!(
                    "with a writer that accepts at most {} bytes per call and a reader that hands out at most {} bytes per call{} the run differs from the reference\n--- expected output: {:?} result {:?}\n--- rrss:            {:?} result {:?}",
                    wc,
                    rc,
                    if ahead { " (ignoring line ends)" } else { "" },
                    String::from_utf8_lossy(&transcript),
                    m.result,
                    String::from_utf8_lossy(&written),
                    r.err
                )));
            }
        }
        // ---- writer faults
        for k in positions(transcript.len()) {
            evals += 1;
            let r = match run_faulty(&tree, &c.stdin, Some(k), None, fuel) {
                Ok(r) => r,
                Err(e) => return Outcome::fail(ctx(&format!("writer fails from byte {}: {}", k, e))),
            };
            let written: Vec<u8> = r.log.iter().filter_map(|e| if let Ev::W(Ok(b)) = e { Some(b.clone()) } else { None }).flatten().collect();
            if written != transcript[..k.min(transcript.len())] {
                return Outcome::fail(ctx(&format!(
                    "writer fails from byte {}: bytes received {:?} are not the first {} bytes of the fault-free transcript {:?}",
                    k,
                    String::from_utf8_lossy(&written),
                    k,
                    String::from_utf8_lossy(&transcript)
                )));
            }
            let needed_more = k < transcript.len();
            let is_io_err = r.err.as_ref().map_or(false, |(v, _)| v.contains("IOError"));
            if needed_more != is_io_err {
                return Outcome::fail(ctx(&format!(
                    "writer fails from byte {} (transcript has {} bytes): result {:?}, expected {}",
                    k,
                    transcript.len(),
                    r.err,
                    if needed_more { "an I/O runtime error" } else { "the fault-free outcome" }
                )));
            }
            if !needed_more && r.err.is_some() != m.result.is_err() {
                return Outcome::fail(ctx(&format!("writer fault beyond the transcript changed the outcome: {:?}", r.err)));
            }
            if !no_call_after_fault(&r.log) {
                return Outcome::fail(ctx(&format!("writer fails from byte {}: a stream was used again after the fault: {:?}", k, r.log)));
            }
            digest ^= fnv_str(&format!("w{}{:?}", k, r.err)).rotate_left(k as u32 % 61);
        }
        // ---- reader faults: which listen is the first to need a byte at or beyond the fault?
        let stdin_b = c.stdin.as_bytes();
        for k in positions(stdin_b.len()) {
            evals += 1;
            let r = match run_faulty(&tree, &c.stdin, None, Some(k), fuel) {
                Ok(r) => r,
                Err(e) => return Outcome::fail(ctx(&format!("reader fails from byte {}: {}", k, e))),
            };
            // walk the reference trace
            let mut consumed = 0usize;
            let mut expected_out: Vec<u8> = vec![];
            let mut failing = false;
            for e in &m.io {
                match e {
                    Io::Say(t) => expected_out.extend(format!("{}\n", t).into_bytes()),
                    Io::Listen(l) => {
                        // the listen needs its line up to and including the terminator, or the EOF indication
                        let start = consumed;
                        let mut end = start + l.as_ref().map_or(0, |l| l.len());
                        let terminated = stdin_b.get(end) == Some(&b'\n') && l.is_some();
                        if terminated {
                            end += 1;
                        }
                        // bytes [start, end) must be delivered; without terminator the reader is asked once more at `end`
                        let needs_up_to = if terminated { end - 1 } else { end };
                        if needs_up_to >= k {
                            failing = true;
                            break;
                        }
                        consumed = end;
                    }
                }
            }
            let written: Vec<u8> = r.log.iter().filter_map(|e| if let Ev::W(Ok(b)) = e { Some(b.clone()) } else { None }).flatten().collect();
            let is_io_err = r.err.as_ref().map_or(false, |(v, _)| v.contains("IOError"));
            if failing {
                if !is_io_err {
                    return Outcome::fail(ctx(&format!("reader fails from byte {}: a listen needed the stream beyond the fault but the result is {:?}", k, r.err)));
                }
                if written != expected_out {
                    return Outcome::fail(ctx(&format!(
                        "reader fails from byte {}: output {:?}, expected exactly what precedes the failing listen {:?}",
                        k,
                        String::from_utf8_lossy(&written),
                        String::from_utf8_lossy(&expected_out)
                    )));
                }
            } else {
                if is_io_err || r.err.is_some() != m.result.is_err() || written != transcript {
                    return Outcome::fail(ctx(&format!("reader fault at byte {} is never reached, yet the run differs from the fault-free one: {:?}", k, r.err)));
                }
            }
            if !no_call_after_fault(&r.log) {
                return Outcome::fail(ctx(&format!("reader fails from byte {}: a stream was used again after the fault: {:?}", k, r.log)));
            }
            digest ^= fnv_str(&format!("r{}{:?}", k, r.err)).rotate_left(k as u32 % 59);
        }
        let mut o = Outcome::pass();
        o.evals = evals;
        o.digest = digest;
        o.nontrivial = (m.trace.says > 0 && m.trace.listens > 0) || transcript.len() >= 2;
        let mut l: Vec<String> = vec![];
        let mut add = |b: bool, s: &str| {
            if b {
                l.push(s.to_string())
            }
        };
        add(m.trace.says > 0 && m.trace.listens > 0, "say_and_listen");
        add(m.io.iter().any(|e| matches!(e, Io::Listen(None))), "listen_at_eof");
        add(!c.stdin.is_empty() && !c.stdin.ends_with('\n'), "no_final_newline");
        add(c.stdin.contains("\n\n") || c.stdin.starts_with('\n'), "blank_input_line");
        add(!c.stdin.is_ascii(), "non_ascii_input");
        add(c.stdin.lines().any(|l| l.len() >= 100), "long_line");
        add(c.stdin.len() > 8192 && m.trace.listens > 100, "input_beyond_8KiB_read_through");
        add(m.trace.loop_iters > 0, "io_in_loop");
        add(m.trace.calls > 0, "io_in_function");
        add(transcript.len() > 64, "sampled_fault_positions");
        add(matches!(m.result, Err(Stop::Error(_))), "runtime_error");
        o.labels = l;
        o
    }
    fn sample(&self, c: &Case) -> Value {
        json!({ "src": render_canonical(&c.prog), "stdin": c.stdin })
    }
    fn expected_labels(&self) -> Vec<String> {
        ["say_and_listen", "listen_at_eof", "no_final_newline", "blank_input_line", "non_ascii_input", "long_line", "input_beyond_8KiB_read_through", "io_in_loop", "io_in_function", "sampled_fault_positions"]
            .iter()
            .map(|s| s.to_string())
            .collect()
    }
}
