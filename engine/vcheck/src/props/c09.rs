//! C09 — running any parseable program never crashes the interpreter.

use crate::harness::{Outcome, Prop, Tier};
use crate::run::{exec_rrss, fnv, fnv_str, parse_rrss, Caught, Limits as RLimits};
use engine_core::ast::*;
use engine_core::gen::soup;
use engine_core::gen::wild::gen_wild;
use engine_core::model::{self, Limits, Scoping};
use engine_core::render::{render, RenderOpts};
use engine_core::tape::Tape;
use serde::{Deserialize, Serialize};
use serde_json::{json, Value};

pub struct C09;

/// orphan poetic suffixes crash the interpreter until finding F3 is repaired
pub const ORPHAN_SUFFIX: bool = true;

#[derive(Clone, Debug, Serialize, Deserialize)]
pub enum Case {
    Wild { prog: Program, stdin: Vec<u8>, spelling: Vec<u32> },
    Text { src: String, stdin: Vec<u8> },
}

pub const ERROR_VARIANTS: [&str; 22] = [
    "EnvironmentError::SymTableError::NameNotFound",
    "EnvironmentError::SymTableError::ExpectedVarFoundFunc",
    "EnvironmentError::SymTableError::ExpectedFuncFoundVar",
    "EnvironmentError::SymTableError::DuplicateSymbol",
    "EnvironmentError::SymTableError::DuplicateFunctionArgName",
    "EnvironmentError::MissingPronounReferent",
    "EnvironmentError::IOError",
    "ValError::NotIndexable",
    "ValError::InvalidKey",
    "ValError::IndexNotAssignable",
    "ValError::InvalidOperationForType",
    "ValError::InvalidComparison",
    "ValError::InvalidSplitDelimiter",
    "ValError::InvalidJoinDelimiter",
    "ValError::InvalidArrayElementForJoin",
    "ValError::ParsingStringAsNumberFailed",
    "ValError::InvalidStringToIntegerRadix",
    "ValError::ConvertingNumberToCharacterFailed",
    "ValError::UnexpectedParameterToNumberToCharacterCast",
    "WriteValError::ValueNotWritable",
    "ExecError::NonCompoundAssignmentExpressionListInvalid",
    "ProduceValError::WrongNumberOfFunctionArguments",
];

fn run_tree(tree: &rrss::frontend::ast::Program, stdin: &[u8], lim: RLimits, src: &str, model_terminated: bool) -> Outcome {
    let (c, out) = exec_rrss(tree, stdin, lim);
    match c {
        Caught::Panic(p) => Outcome::fail(format!(
            "the interpreter panicked: {}\n--- stdout so far: {:?}\n--- stdin: {:?}\n--- program:\n{}",
            p,
            out.stdout_str(),
            String::from_utf8_lossy(stdin),
            src
        )),
        Caught::Budget(b) => {
            if model_terminated && b.contains("Exec") {
                Outcome::fail(format!(
                    "the interpreter ran more than ten times the loop iterations + calls of the reference run ({})\n--- program:\n{}",
                    b, src
                ))
            } else {
                Outcome::discard("resource_bound")
            }
        }
        Caught::Done(()) => {
            let mut o = Outcome::pass();
            o.digest = fnv(&out.stdout) ^ fnv_str(&format!("{:?}", out.err));
            match &out.err {
                None => o.labels.push("ok".into()),
                Some((variant, msg)) => {
                    if msg.is_empty() {
                        return Outcome::fail(format!("runtime error {} renders as an empty message\n{}", variant, src));
                    }
                    o.labels.push(variant.clone());
                }
            }
            if !out.stdout.is_empty() {
                o.labels.push("printed_something".into());
            }
            o
        }
    }
}

impl Prop for C09 {
    type Case = Case;
    fn id(&self) -> &'static str {
        "C09"
    }
    fn rule(&self) -> String {
        "(a0) one tenth: programs from the structured generators of the other checks (mutation histories, array histories, functions, control flow, I/O). (a) wild programs: 2-15 statements over six names shared by variables, functions and parameters; three quarters type-directed (the model is consulted after every statement and an operation fitting the \
         variable's current kind is chosen: arithmetic with boundary numbers, build/knock, turn, cast to character / with boundary radices, cut, join, indexing with boundary indices 1e30, inf, NaN, -1, 0.5, 2^32, 2^64, \
         array as key and value, rock/roll incl. degenerate poetic literals, function definitions with duplicate/self-named parameters, calls with right and wrong arity), one quarter fully random grammar statements; \
         degenerate poetic literals (orphan suffixes, dots only, 60 words), pronouns without referent, break/continue/return at top level and in several top-level blocks, statements after the failing one; stdin incl. invalid UTF-8. \
         (b) token-level mutations of (a) and of the repository's test programs that still parse, run under a flat fuel/allocation cap. \
         non-trivial = parser-accepted, >= 2 statements, >= 1 executed; distinct by program text+stdin"
            .into()
    }
    fn assumptions(&self) -> Vec<String> {
        vec![
            "resource bound: (a) 400 reference steps, rrss fuel = 10x reference steps + 100; (b) flat 2000 loop iterations + calls, 4e6 bytes/elements per allocation; exhaustion = out of the property's bound, counted".into(),
            "both build profiles replay the same stream; stdout and outcome must agree (digest)".into(),
        ]
    }
    fn tape_len(&self, _t: Tier) -> usize {
        400
    }
    fn cases(&self, t: Tier) -> usize {
        t.pick(300_000, 10_000_000)
    }
    fn generate(&self, t: &mut Tape) -> Case {
        let spelling = super::c02::take_spelling(t, 30);
        let text_leg = t.chance(1, 4);
        if text_leg && t.chance(1, 2) {
            // mutate a repository snippet
            let a = super::textgen::snippet(t);
            let b = super::textgen::snippet(t);
            let src = soup::mutate(a, t, b);
            return Case::Text { src, stdin: b"1\nabc\n\n".to_vec() };
        }
        if !text_leg && t.chance(1, 8) {
            // the structured generators of the other checks (histories of mutations, arrays, functions, control flow, I/O):
            // mostly well-typed programs that run long and deep, where a crash needs a history rather than an odd operand
            let (prog, stdin): (Program, Vec<u8>) = match t.pick(5) {
                0 => {
                    let mut g = engine_core::gen::mutate::MutGen::new(t);
                    let p = g.program();
                    (p, g.stdin.clone().into_bytes())
                }
                1 => (engine_core::gen::arrays::ArrGen::new(t).program(), vec![]),
                2 => (engine_core::gen::funcs::FnGen::new(t).program(), vec![]),
                3 => (engine_core::gen::flow::FlowGen::new(t).program(), vec![]),
                _ => {
                    let mut g = engine_core::gen::io::IoGen::new(t);
                    let p = g.program();
                    let i = g.stdin();
                    (p, i.into_bytes())
                }
            };
            return Case::Wild { prog, stdin, spelling };
        }
        let w = gen_wild(t, ORPHAN_SUFFIX);
        if text_leg {
            let src = render(&w.prog, &spelling, RenderOpts::CLEAN).text;
            let other = super::textgen::snippet(t);
            let src = soup::mutate(&src, t, other);
            Case::Text { src, stdin: w.stdin }
        } else {
            Case::Wild { prog: w.prog, stdin: w.stdin, spelling }
        }
    }
    fn fixed_cases(&self, _t: Tier) -> (Vec<Case>, bool) {
        // the repository's own test programs, as they are
        (engine_core::snippets().iter().map(|s| Case::Text { src: s.clone(), stdin: b"3\nx\n".to_vec() }).collect(), false)
    }
    fn check(&self, c: &Case) -> Outcome {
        match c {
            Case::Wild { prog, stdin, spelling } => {
                if prog.blocks.is_empty() {
                    return Outcome::discard("empty");
                }
                if let Err(e) = prog.validate() {
                    return Outcome::discard(format!("generator_bug:{}", e));
                }
                let src = render(prog, spelling, RenderOpts::CLEAN).text;
                let tree = match parse_rrss(&src, Some(crate::run::parse_fuel_for(&src))) {
                    Caught::Done(Ok(t)) => t,
                    Caught::Done(Err(e)) => return Outcome::discard(format!("render_mismatch:rejected:{}", e.code)),
                    Caught::Panic(p) => return Outcome::fail(format!("parse panicked: {}\n{}", p, src)),
                    Caught::Budget(_) => return Outcome::fail(format!("parse ran out of fuel\n{}", src)),
                };
                // a mis-parsed text (C02's subject) is still a parser-accepted program: run it, under the flat budget
                let tree_differs = &crate::adapt::program(&tree) != prog;
                let stdin_str = String::from_utf8_lossy(stdin).into_owned();
                let m = model::run(prog, &stdin_str, Scoping::Dynamic, Limits { max_steps: 400, ..Limits::default() });
                // values whose size explodes in the reference run (strings, self-nested arrays) are outside the
                // property's "modest resource bounds": the fuel hook bounds steps, not memory
                if let Err(model::Stop::Budget(w)) = &m.result {
                    if w.contains("size") {
                        return Outcome::discard("resource_bound:size_in_reference_run");
                    }
                }
                let valid_utf8 = std::str::from_utf8(stdin).is_ok();
                let (fuel, model_terminated) = if m.judged() && valid_utf8 && !tree_differs { (10 * m.steps + 100, true) } else { (3000, false) };
                let mut o = run_tree(&tree, stdin, RLimits { exec_fuel: Some(fuel), alloc_cap: Some(4_000_000) }, &src, model_terminated);
                o.nontrivial = !o.is_fail() && prog.stmt_count() >= 2 && m.trace.stmts >= 1;
                o.labels.push("leg:wild".into());
                if tree_differs {
                    o.labels.push("parsed_tree_differs".into());
                }
                if prog.blocks.len() > 1 {
                    o.labels.push("several_top_level_blocks".into());
                }
                if !m.judged() {
                    o.labels.push("model_unspecified_or_budget".into());
                }
                o
            }
            Case::Text { src, stdin } => {
                let tree = match parse_rrss(src, Some(crate::run::parse_fuel_for(src))) {
                    Caught::Done(Ok(t)) => t,
                    Caught::Done(Err(_)) => return Outcome::discard("parse_error"),
                    Caught::Panic(p) => return Outcome::fail(format!("parse panicked: {}\n{}", p, src)),
                    Caught::Budget(_) => return Outcome::fail(format!("parse ran out of fuel\n{}", src)),
                };
                let n_stmts: usize = tree.code.len();
                let mut o = run_tree(&tree, stdin, RLimits { exec_fuel: Some(2000), alloc_cap: Some(4_000_000) }, src, false);
                o.nontrivial = !o.is_fail() && n_stmts >= 1 && src.lines().filter(|l| !l.trim().is_empty()).count() >= 2;
                o.labels.push("leg:text_mutation".into());
                o
            }
        }
    }
    fn sample(&self, c: &Case) -> Value {
        match c {
            Case::Wild { prog, stdin, spelling } => json!({ "src": render(prog, spelling, RenderOpts::CLEAN).text, "stdin": String::from_utf8_lossy(stdin) }),
            Case::Text { src, stdin } => json!({ "src": src, "stdin": String::from_utf8_lossy(stdin) }),
        }
    }
    fn key(&self, c: &Case) -> u64 {
        match c {
            Case::Wild { prog, stdin, .. } => fnv_str(&serde_json::to_string(prog).unwrap_or_default()) ^ fnv(stdin),
            Case::Text { src, stdin } => fnv_str(src) ^ fnv(stdin),
        }
    }
    fn expected_labels(&self) -> Vec<String> {
        let mut v: Vec<String> = ERROR_VARIANTS.iter().map(|s| s.to_string()).collect();
        v.push("ok".into());
        v.push("leg:wild".into());
        v.push("leg:text_mutation".into());
        v.push("several_top_level_blocks".into());
        v
    }
}
