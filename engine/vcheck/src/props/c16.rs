//! C16 — visitors see every node exactly once, in order, and stop at the first error.
//! Oracle: a recording visitor written against the public traits vs an independent walk of the tree.

use crate::harness::{Outcome, Prop, Tier};
use crate::run::{fnv_str, guarded, parse_rrss, Caught};
use crate::walk::{name_text, Ev, Walker};
use engine_core::ast::{num, say, simple, var, Program, Stmt};
use engine_core::gen::syntax::{SynCfg, SynGen};
use engine_core::render::render_canonical;
use engine_core::tape::Tape;
use rrss::analysis::visit::{self, Combine, ExprVisitorRunner, Visit, VisitExpr, VisitProgram};
use rrss::frontend::ast as r;
use rrss::frontend::source_range::SourceRange;
use serde::{Deserialize, Serialize};
use serde_json::{json, Value};

pub struct C16;

#[derive(Clone, Debug, Serialize, Deserialize)]
pub struct Case {
    pub prog: Program,
}

#[derive(Default, Debug, Clone, PartialEq)]
pub struct Log(Vec<Ev>);

impl Combine for Log {
    fn combine(mut self, other: Self) -> Self {
        self.0.extend(other.0);
        self
    }
}

/// records every callback; fails at callback number `fail_at`
pub struct Recorder {
    log: Vec<Ev>,
    calls: usize,
    fail_at: Option<usize>,
    mid: bool,
    /// remote control for a recorder that sits inside a runner which is used for several walks: a pending order
    /// "forget everything, fail at this callback from now on", and a copy of the log for the outside to read
    ctl: Option<std::rc::Rc<std::cell::RefCell<Ctl>>>,
}

#[derive(Default)]
pub struct Ctl {
    reset_to: Option<Option<usize>>,
    log: Vec<Ev>,
    calls: usize,
}

impl Recorder {
    fn new(fail_at: Option<usize>, mid: bool) -> Self {
        Recorder { log: vec![], calls: 0, fail_at, mid, ctl: None }
    }
    fn remote(mid: bool) -> (Self, std::rc::Rc<std::cell::RefCell<Ctl>>) {
        let ctl = std::rc::Rc::new(std::cell::RefCell::new(Ctl::default()));
        (Recorder { log: vec![], calls: 0, fail_at: None, mid, ctl: Some(ctl.clone()) }, ctl)
    }
    fn leaf(&mut self, e: Ev) -> Result<Log, usize> {
        if let Some(ctl) = &self.ctl {
            if let Some(f) = ctl.borrow_mut().reset_to.take() {
                self.log.clear();
                self.calls = 0;
                self.fail_at = f;
            }
        }
        let r = if self.fail_at == Some(self.calls) {
            let k = self.calls;
            self.calls += 1;
            Err(k)
        } else {
            self.calls += 1;
            self.log.push(e.clone());
            Ok(Log(vec![e]))
        };
        if let Some(ctl) = &self.ctl {
            let mut c = ctl.borrow_mut();
            match &r {
                Ok(l) => c.log.push(l.0[0].clone()),
                Err(_) => {}
            }
            c.calls = self.calls;
        }
        r
    }
    /// mid-level callbacks log "presented" and contribute it to the fold as well
    fn enter(&mut self, what: &'static str) -> Result<Log, usize> {
        self.leaf(Ev::Enter(what))
    }
}

impl Visit for Recorder {
    type Output = Log;
    type Error = usize;
}

impl VisitExpr for Recorder {
    fn visit_binary_operator(&mut self, o: r::BinaryOperator) -> visit::Result<Self> {
        self.leaf(Ev::BinOp(format!("{:?}", o)))
    }
    fn visit_unary_operator(&mut self, o: r::UnaryOperator) -> visit::Result<Self> {
        self.leaf(Ev::UnOp(format!("{:?}", o)))
    }
    fn visit_literal_expression(&mut self, e: &r::WithRange<r::LiteralExpression>) -> visit::Result<Self> {
        self.leaf(Ev::Lit(format!("{:?}", e.0)))
    }
    fn visit_pronoun(&mut self, _: SourceRange) -> visit::Result<Self> {
        self.leaf(Ev::Pronoun)
    }
    fn visit_poetic_number_literal_elem(&mut self, p: &r::PoeticNumberLiteralElem) -> visit::Result<Self> {
        self.leaf(Ev::Poetic(format!("{:?}", p)))
    }
    fn visit_simple_identifier(&mut self, n: r::WithRange<&r::SimpleIdentifier>) -> visit::Result<Self> {
        let (text, kind, exact) = name_text(&r::VariableName::Simple(n.0.clone()));
        self.leaf(Ev::Name { text, kind, line: n.1.start().line, callee: false, exact })
    }
    fn visit_common_identifier(&mut self, n: r::WithRange<&r::CommonIdentifier>) -> visit::Result<Self> {
        let (text, kind, exact) = name_text(&r::VariableName::Common(n.0.clone()));
        self.leaf(Ev::Name { text, kind, line: n.1.start().line, callee: false, exact })
    }
    fn visit_proper_identifier(&mut self, n: r::WithRange<&r::ProperIdentifier>) -> visit::Result<Self> {
        let (text, kind, exact) = name_text(&r::VariableName::Proper(n.0.clone()));
        self.leaf(Ev::Name { text, kind, line: n.1.start().line, callee: false, exact })
    }

    // ---- variant B: mid-level callbacks log that the node was presented, then dispatch on
    fn visit_expression(&mut self, e: &r::Expression) -> visit::Result<Self> {
        if !self.mid {
            return match e {
                r::Expression::PrimaryExpression(e) => self.visit_primary_expression(e),
                r::Expression::BinaryExpression(e) => self.visit_binary_expression(e),
                r::Expression::UnaryExpression(e) => self.visit_unary_expression(e),
            };
        }
        let a = self.enter("expression")?;
        let b = match e {
            r::Expression::PrimaryExpression(e) => self.visit_primary_expression(e),
            r::Expression::BinaryExpression(e) => self.visit_binary_expression(e),
            r::Expression::UnaryExpression(e) => self.visit_unary_expression(e),
        }?;
        Ok(a.combine(b))
    }
    fn visit_primary_expression(&mut self, e: &r::PrimaryExpression) -> visit::Result<Self> {
        let a = if self.mid { self.enter("primary_expression")? } else { Log::default() };
        let b = match e {
            r::PrimaryExpression::Literal(e) => self.visit_literal_expression(e),
            r::PrimaryExpression::Identifier(i) => self.visit_identifier(i),
            r::PrimaryExpression::ArraySubscript(a) => self.visit_array_subscript(a),
            r::PrimaryExpression::FunctionCall(f) => self.visit_function_call(f),
            r::PrimaryExpression::ArrayPop(a) => self.visit_array_pop_expr(a),
        }?;
        Ok(a.combine(b))
    }
    fn visit_identifier(&mut self, i: &r::WithRange<r::Identifier>) -> visit::Result<Self> {
        let a = if self.mid { self.enter("identifier")? } else { Log::default() };
        let b = match &i.0 {
            r::Identifier::VariableName(n) => self.visit_variable_name(r::WithRange(n, i.1.clone())),
            r::Identifier::Pronoun => self.visit_pronoun(i.1.clone()),
        }?;
        Ok(a.combine(b))
    }
    fn visit_variable_name(&mut self, n: r::WithRange<&r::VariableName>) -> visit::Result<Self> {
        let a = if self.mid { self.enter("variable_name")? } else { Log::default() };
        let b = match n.0 {
            r::VariableName::Simple(x) => self.visit_simple_identifier(r::WithRange(x, n.1.clone())),
            r::VariableName::Common(x) => self.visit_common_identifier(r::WithRange(x, n.1.clone())),
            r::VariableName::Proper(x) => self.visit_proper_identifier(r::WithRange(x, n.1.clone())),
        }?;
        Ok(a.combine(b))
    }
    fn visit_assignment_lhs(&mut self, l: &r::AssignmentLHS) -> visit::Result<Self> {
        let a = if self.mid { self.enter("assignment_lhs")? } else { Log::default() };
        let b = match l {
            r::AssignmentLHS::Identifier(i) => self.visit_identifier(i),
            r::AssignmentLHS::ArraySubscript(a) => self.visit_array_subscript(a),
        }?;
        Ok(a.combine(b))
    }
    fn visit_assignment_rhs(&mut self, x: &r::AssignmentRHS) -> visit::Result<Self> {
        let a = if self.mid { self.enter("assignment_rhs")? } else { Log::default() };
        let b = match x {
            r::AssignmentRHS::ExpressionList(e) => self.visit_expression_list(e),
        }?;
        Ok(a.combine(b))
    }
    fn visit_poetic_number_assignment_rhs(&mut self, p: &r::PoeticNumberAssignmentRHS) -> visit::Result<Self> {
        let a = if self.mid { self.enter("poetic_number_assignment_rhs")? } else { Log::default() };
        let b = match p {
            r::PoeticNumberAssignmentRHS::Expression(e) => self.visit_expression(e),
            r::PoeticNumberAssignmentRHS::PoeticNumberLiteral(p) => self.visit_poetic_number_literal(p),
        }?;
        Ok(a.combine(b))
    }
    fn visit_array_push_rhs(&mut self, x: &r::ArrayPushRHS) -> visit::Result<Self> {
        let a = if self.mid { self.enter("array_push_rhs")? } else { Log::default() };
        let b = match x {
            r::ArrayPushRHS::ExpressionList(e) => self.visit_expression_list(e),
            r::ArrayPushRHS::PoeticNumberLiteral(p) => self.visit_poetic_number_literal(p),
        }?;
        Ok(a.combine(b))
    }
}

/// the walk records callee-ness and lines; the recorder cannot know callee-ness: erase it for comparison
fn normalise(v: &[Ev]) -> Vec<Ev> {
    v.iter()
        .map(|e| match e {
            Ev::Name { text, kind, line, exact, .. } => Ev::Name { text: text.clone(), kind: *kind, line: *line, callee: false, exact: exact.clone() },
            o => o.clone(),
        })
        .collect()
}

fn check_tree(tree: &r::Program, mid: bool, all_k: bool) -> Result<(usize, u32), String> {
    let mut w = Walker::new(mid);
    w.program(tree);
    let expected = normalise(&w.out);
    let mut runs = 0u32;
    // ---- complete walk
    let mut runner = ExprVisitorRunner::with_inner(Recorder::new(None, mid));
    let res = runner.visit_program(tree);
    let rec = runner.inner();
    runs += 1;
    if rec.log != expected {
        let i = rec.log.iter().zip(expected.iter()).position(|(a, b)| a != b).unwrap_or(rec.log.len().min(expected.len()));
        return Err(format!(
            "callback sequence differs from the tree in reading order at event #{}: visitor saw {:?}, tree has {:?} (visitor {} events, tree {})",
            i,
            rec.log.get(i),
            expected.get(i),
            rec.log.len(),
            expected.len()
        ));
    }
    match res {
        Ok(folded) => {
            if folded.0 != rec.log {
                return Err(format!("the folded result is not the left-to-right combination of the callback results ({} vs {} entries)", folded.0.len(), rec.log.len()));
            }
        }
        Err(k) => return Err(format!("walk failed with {} although no callback failed", k)),
    }
    // ---- failure at every callback index
    let n = expected.len();
    let ks: Vec<usize> = if all_k || n <= 40 { (0..n).collect() } else { (0..40).map(|i| i * (n - 1) / 39).collect() };
    for k in ks {
        let mut runner = ExprVisitorRunner::with_inner(Recorder::new(Some(k), mid));
        let res = runner.visit_program(tree);
        let rec = runner.inner();
        runs += 1;
        if res != Err(k) {
            return Err(format!("callback #{} returned Err({}) but the walk returned {:?}", k, k, res.map(|l| l.0.len())));
        }
        if rec.log.len() != k || rec.calls != k + 1 {
            return Err(format!(
                "callback #{} failed: {} callbacks were logged before it and {} calls were made in total (expected {} and {})",
                k,
                rec.log.len(),
                rec.calls,
                k,
                k + 1
            ));
        }
        if rec.log[..] != expected[..k] {
            return Err(format!("callback #{} failed: the callbacks before it are not the first {} of the full sequence", k, k));
        }
    }
    // ---- one runner used for walk after walk: a failed walk, then a complete one, again and again; every walk must be
    // what it would be with a fresh runner (nothing about an earlier walk, finished or not, may linger in the runner)
    {
        let (rec, ctl) = Recorder::remote(mid);
        let mut runner = ExprVisitorRunner::with_inner(rec);
        let ks: Vec<usize> = if n <= 12 { (0..n).collect() } else { (0..12).map(|i| i * (n - 1) / 11).collect() };
        for k in ks {
            {
                let mut c = ctl.borrow_mut();
                c.reset_to = Some(Some(k));
                c.log.clear();
                c.calls = 0;
            }
            let res = runner.visit_program(tree);
            runs += 1;
            {
                let c = ctl.borrow();
                if res != Err(k) || c.log[..] != expected[..k] || c.calls != k + 1 {
                    return Err(format!(
                        "a runner that has walked before: callback #{} failed, the walk returned {:?} after {} logged callbacks and {} calls (expected Err({}), {} and {})",
                        k,
                        res.map(|l| l.0.len()),
                        c.log.len(),
                        c.calls,
                        k,
                        k,
                        k + 1
                    ));
                }
            }
            {
                let mut c = ctl.borrow_mut();
                c.reset_to = Some(None);
                c.log.clear();
                c.calls = 0;
            }
            let res = runner.visit_program(tree);
            runs += 1;
            let c = ctl.borrow();
            if c.log != expected {
                let i = c.log.iter().zip(expected.iter()).position(|(a, b)| a != b).unwrap_or(c.log.len().min(expected.len()));
                return Err(format!(
                    "a runner whose previous walk stopped at callback #{} does not present the whole tree on its next walk: event #{} is {:?}, the tree has {:?} (visitor {} events, tree {})",
                    k,
                    i,
                    c.log.get(i),
                    expected.get(i),
                    c.log.len(),
                    expected.len()
                ));
            }
            match res {
                Ok(folded) if folded.0 == c.log => {}
                Ok(folded) => return Err(format!("reused runner: the folded result is not the combination of the callback results ({} vs {} entries)", folded.0.len(), c.log.len())),
                Err(e) => return Err(format!("reused runner: walk failed with {} although no callback failed", e)),
            }
        }
    }
    Ok((n, runs))
}

impl Prop for C16 {
    type Case = Case;
    fn id(&self) -> &'static str {
        "C16"
    }
    fn rule(&self) -> String {
        "trees: rrss syntax trees obtained by parsing grammar-generated programs (incl. operator chains of 17-40 links, lists of up to 13 operands, 3% programs with 40-140 empty blocks and 3% with blocks nested 50-100 deep; every node type in every position: else blocks, mutation destination and parameter, function parameters, list tails, nested subscripts, \
         poetic elements, calls, roll-expressions) x every choice of the failing callback (all indices up to 40 events, 40 spread indices beyond; all in the thorough tier). Two recording visitors against the public \
         traits driven by ExprVisitorRunner: A overrides only leaf callbacks, B also the dispatching mid-level callbacks (expression, primary, identifier, variable name, lhs, rhs kinds). \
         non-trivial = >= 5 leaf events; distinct by tree"
            .into()
    }
    fn assumptions(&self) -> Vec<String> {
        vec![
            "expected order = reading order from an independent walk over the public tree fields (walk.rs): field order except BinaryExpression (lhs, operator, rhs) and Assignment (dest, operator, value)".into(),
            "statement-level leaves of the runner (mutation operator, rounding direction, break, continue) are not delegated to the inner visitor and cannot be observed".into(),
            "one runner object is also used for up to 24 walks in a row (failing at 12 spread callbacks, each followed by a complete walk): every walk must equal the walk of a fresh runner".into(),
        ]
    }
    fn tape_len(&self, _t: Tier) -> usize {
        400
    }
    fn cases(&self, t: Tier) -> usize {
        t.pick(80_000, 150_000)
    }
    fn generate(&self, t: &mut Tape) -> Case {
        match t.weighted(&[94, 3, 3]) {
            1 => {
                // 40-140 empty blocks (loops, branches, else branches, function bodies) before ordinary statements
                let mut stmts: Vec<Stmt> = vec![];
                let n = 40 + t.pick(101);
                let x = simple("x");
                for i in 0..n {
                    stmts.push(match (i + t.pick(2)) % 5 {
                        0 => Stmt::While { cond: var(&x), body: vec![] },
                        1 => Stmt::If { cond: var(&x), then: vec![], els: None },
                        2 => Stmt::If { cond: var(&x), then: vec![], els: Some(vec![]) },
                        3 => Stmt::Until { cond: var(&x), body: vec![] },
                        _ => Stmt::Function { name: simple(&format!("fn{}", ["a", "b", "c", "d"][i % 4])), params: vec![simple("p")], body: vec![] },
                    });
                }
                let mut g = SynGen::new(t, SynCfg { giant_chains: true, ..SynCfg::default() });
                stmts.push(Stmt::If { cond: var(&x), then: g.block(1, false), els: Some(g.block(1, false)) });
                stmts.extend(g.block(2, false));
                Case { prog: Program::single(stmts) }
            }
            2 => {
                // 50-100 levels of nested blocks with statements on the way in and on the way out
                let depth = 50 + t.pick(51);
                let x = simple("x");
                let mut inner: Vec<Stmt> = SynGen::new(t, SynCfg { giant_chains: true, ..SynCfg::default() }).block(1, false);
                for i in 0..depth {
                    let mut body = vec![say(num(i as f64))];
                    body.extend(inner);
                    inner = vec![if i % 3 == 0 { Stmt::While { cond: var(&x), body } } else { Stmt::If { cond: var(&x), then: body, els: None } }, say(var(&x))];
                }
                Case { prog: Program::single(inner) }
            }
            _ => Case { prog: SynGen::new(t, SynCfg { giant_chains: true, ..SynCfg::default() }).program() },
        }
    }
    fn check(&self, c: &Case) -> Outcome {
        let src = render_canonical(&c.prog);
        let tree = match parse_rrss(&src, Some(crate::run::parse_fuel_for(&src))) {
            Caught::Done(Ok(t)) => t,
            _ => return Outcome::discard("render_mismatch:rejected"),
        };
        let thorough = crate::harness::THOROUGH.load(std::sync::atomic::Ordering::Relaxed);
        let r = guarded(|| {
            let a = check_tree(&tree, false, thorough)?;
            let b = check_tree(&tree, true, thorough)?;
            Ok::<_, String>((a, b))
        });
        match r {
            Caught::Panic(p) => Outcome::fail(format!("visitor walk panicked: {}\n{}", p, src)),
            Caught::Budget(b) => Outcome::fail(format!("budget {}", b)),
            Caught::Done(Err(m)) => Outcome::fail(format!("{}\n--- program:\n{}", m, src)),
            Caught::Done(Ok(((n, ra), (nb, rb)))) => {
                let mut o = Outcome::pass().nt(n >= 5);
                o.evals = ra + rb;
                o.digest = fnv_str(&format!("{}:{}", n, nb));
                if n >= 40 {
                    o.labels.push("leaves>=40".into());
                }
                o.labels.push("variant_a".into());
                o.labels.push("variant_b".into());
                o
            }
        }
    }
    fn sample(&self, c: &Case) -> Value {
        json!({ "src": render_canonical(&c.prog) })
    }
}
