//! C02 — every spelling of a program parses to the same syntax tree.
//! Oracle: round trip  tree -> text (spelling tape) -> rrss parser -> tree.

use crate::harness::{Outcome, Prop, Tier};
use crate::run::{fnv_str, parse_mini, Caught};
use engine_core::ast::*;
use engine_core::gen::syntax::{SynCfg, SynGen};
use engine_core::kw;
use engine_core::render::{render, RenderOpts, RenderStats};
use engine_core::tape::Tape;
use serde::{Deserialize, Serialize};
use serde_json::{json, Value};

pub struct C02;

#[derive(Clone, Debug, Serialize, Deserialize)]
pub struct Case {
    pub prog: Program,
    pub sp1: Vec<u32>,
    pub sp2: Vec<u32>,
}

pub fn take_spelling(t: &mut Tape, max: usize) -> Vec<u32> {
    let n = t.pick(max + 1);
    (0..n).map(|_| t.raw()).collect()
}

pub fn first_difference(a: &Program, b: &Program) -> String {
    let ja = serde_json::to_string(a).unwrap_or_default();
    let jb = serde_json::to_string(b).unwrap_or_default();
    let i = ja.bytes().zip(jb.bytes()).position(|(x, y)| x != y).unwrap_or(ja.len().min(jb.len()));
    let lo = i.saturating_sub(80);
    let cut = |s: &str| {
        let mut lo = lo.min(s.len());
        while !s.is_char_boundary(lo) {
            lo -= 1;
        }
        let mut hi = (i + 80).min(s.len());
        while !s.is_char_boundary(hi) {
            hi -= 1;
        }
        s[lo..hi].to_string()
    };
    format!("expected …{}… parsed …{}…", cut(&ja), cut(&jb))
}

fn walk_expr(e: &Expr, labels: &mut Vec<String>) {
    match e {
        Expr::Primary(p) => walk_primary(p, labels),
        Expr::Unary { op, operand } => {
            labels.push(format!("op:{:?}", op));
            walk_expr(operand, labels)
        }
        Expr::Binary { op, lhs, rhs } => {
            labels.push(format!("op:{:?}", op));
            if rhs.len() > 1 {
                labels.push("list_operand".into());
            }
            if rhs.len() > 8 {
                labels.push("list_of_more_than_8".into());
            }
            if op.level() == 1 {
                if let Expr::Binary { op: o2, .. } = &**lhs {
                    if o2.level() == 1 {
                        labels.push("cmp_chain".into());
                    }
                }
            }
            walk_expr(lhs, labels);
            for r in rhs {
                walk_expr(r, labels)
            }
        }
    }
}

fn walk_primary(p: &Primary, labels: &mut Vec<String>) {
    match p {
        Primary::Subscript(a, b) => {
            labels.push("subscript".into());
            walk_primary(a, labels);
            walk_primary(b, labels)
        }
        Primary::Call(_, args) => {
            labels.push("call_expr".into());
            if args.len() > 8 {
                labels.push("more_than_8_arguments".into());
            }
            for a in args {
                walk_expr(a, labels)
            }
        }
        Primary::Pop(p) => {
            labels.push("roll_expr".into());
            walk_primary(p, labels)
        }
        _ => {}
    }
}

fn walk_block(b: &[Stmt], in_fn: bool, labels: &mut Vec<String>) {
    for (i, s) in b.iter().enumerate() {
        labels.push(format!("stmt:{}", s.kind()));
        match s {
            Stmt::If { cond, then, els } => {
                walk_expr(cond, labels);
                if els.is_some() {
                    if in_fn && i + 1 == b.len() {
                        labels.push("function_terminated_by_if_else".into());
                    }
                    if let Some(Stmt::If { els: None, .. } | Stmt::While { .. } | Stmt::Until { .. }) = then.last() {
                        labels.push("else_outer".into());
                    }
                }
                if then.is_empty() {
                    labels.push("empty_block".into());
                }
                walk_block(then, false, labels);
                if let Some(e) = els {
                    walk_block(e, false, labels)
                }
            }
            Stmt::While { cond, body } | Stmt::Until { cond, body } => {
                walk_expr(cond, labels);
                if body.is_empty() {
                    labels.push("empty_block".into());
                }
                walk_block(body, false, labels)
            }
            Stmt::Function { body, .. } => walk_block(body, true, labels),
            Stmt::Assign { value, .. } => {
                for v in value {
                    walk_expr(v, labels)
                }
            }
            Stmt::Output { value } | Stmt::Return { value } | Stmt::Rounding { operand: value, .. } => walk_expr(value, labels),
            Stmt::PoeticNum { rhs: PoeticRhs::Expr(e), .. } => {
                labels.push("poetic_expr_rhs".into());
                walk_expr(e, labels)
            }
            Stmt::Call { args, .. } => {
                for a in args {
                    walk_expr(a, labels)
                }
            }
            _ => {}
        }
    }
}

pub fn stat_labels(st: &RenderStats, labels: &mut Vec<String>) {
    for a in &st.aliases {
        labels.push(format!("alias:{}", a));
    }
    if st.comment {
        labels.push("comment".into());
    }
    if st.multiline_comment {
        labels.push("multiline_comment".into());
    }
    if st.noise {
        labels.push("noise".into());
    }
    if st.case_changed {
        labels.push("case_changed".into());
    }
    if st.crlf {
        labels.push("crlf".into());
    }
    if st.glued_suffix {
        labels.push("glued_suffix".into());
    }
}

/// render + parse + compare; Ok(labels) or Err(message)
pub fn round_trip(prog: &Program, sp: &[u32], opts: RenderOpts) -> Result<(String, RenderStats), String> {
    let r = render(prog, sp, opts);
    match parse_mini(&r.text) {
        Caught::Panic(m) => Err(format!("parse panicked on a rendering: {}\n--- text:\n{}", m, r.text)),
        Caught::Budget(b) => Err(format!("parse ran out of fuel ({}) on a rendering\n--- text:\n{}", b, r.text)),
        Caught::Done(Err(e)) => Err(format!("rendering of a valid tree was rejected: {}\n--- text:\n{}", e.text, r.text)),
        Caught::Done(Ok(p)) => {
            if &p == prog {
                Ok((r.text, r.stats))
            } else {
                Err(format!("parsed tree differs from the tree that was rendered: {}\n--- text:\n{}", first_difference(prog, &p), r.text))
            }
        }
    }
}

impl Prop for C02 {
    type Case = Case;
    fn id(&self) -> &'static str {
        "C02"
    }
    fn rule(&self) -> String {
        "trees: grammar-directed mini-AST programs (all 18 statement kinds, expressions by precedence level with list operands, \
         calls, subscripts, roll-expressions, poetic literals/strings, nested blocks, functions) x three spellings (canonical + two \
         independent spelling tapes: keyword aliases, letter case, optional words, separators, noise punctuation, comments, layout, CR/LF). \
         non-trivial = (>= 2 statements or >= 2 operators) and a spelling that differs from the canonical one; distinct by tree+spellings"
            .into()
    }
    fn assumptions(&self) -> Vec<String> {
        vec![
            "the expected tree is the generator's tree; names are stored verbatim (name case is C15's subject)".into(),
            "trees the greedy grammar cannot express (call followed by a separator, nested lists, `let x be -5`, …) are excluded by construction".into(),
        ]
    }
    fn tape_len(&self, _t: Tier) -> usize {
        500
    }
    fn cases(&self, t: Tier) -> usize {
        t.pick(300_000, 3_000_000)
    }
    fn generate(&self, t: &mut Tape) -> Case {
        let sp1 = take_spelling(t, 60);
        let sp2 = take_spelling(t, 60);
        let prog = {
            let mut g = SynGen::new(t, SynCfg { giant_chains: true, ..SynCfg::default() });
            g.program()
        };
        Case { prog, sp1, sp2 }
    }
    fn check(&self, c: &Case) -> Outcome {
        let mut labels: Vec<String> = vec![];
        let mut digest = 0u64;
        let mut noncanon = 0;
        for (i, sp) in [&[][..], &c.sp1[..], &c.sp2[..]].iter().enumerate() {
            let opts = if i == 0 { RenderOpts::CANONICAL } else { RenderOpts::ALL };
            match round_trip(&c.prog, sp, opts) {
                Ok((text, st)) => {
                    digest ^= fnv_str(&text).rotate_left(i as u32);
                    noncanon += st.noncanonical_choices;
                    stat_labels(&st, &mut labels);
                }
                Err(m) => return Outcome::fail(format!("spelling #{}: {}", i, m)),
            }
        }
        for b in &c.prog.blocks {
            walk_block(b, false, &mut labels);
        }
        if c.prog.blocks.len() > 1 {
            labels.push("multi_block".into());
        }
        labels.sort();
        labels.dedup();
        let ops: usize = labels.iter().filter(|l| l.starts_with("op:")).count();
        let nt = (c.prog.stmt_count() >= 2 || ops >= 2) && noncanon > 0;
        let mut o = Outcome::pass().nt(nt);
        o.evals = 3;
        o.labels = labels;
        o.digest = digest;
        o
    }
    fn sample(&self, c: &Case) -> Value {
        json!({
            "canonical": render(&c.prog, &[], RenderOpts::CANONICAL).text,
            "spelling1": render(&c.prog, &c.sp1, RenderOpts::ALL).text,
            "spelling2": render(&c.prog, &c.sp2, RenderOpts::ALL).text,
        })
    }
    fn expected_labels(&self) -> Vec<String> {
        let mut v: Vec<String> = Stmt::KINDS.iter().map(|k| format!("stmt:{}", k)).collect();
        for op in BinOp::ALL {
            v.push(format!("op:{:?}", op));
        }
        v.push("op:Minus".into());
        v.push("op:Not".into());
        for a in kw::all_aliases() {
            // the common-variable prefixes are part of the names, not a rendering choice
            if !matches!(kw::lookup(a), Some(kw::Kw::CommonPrefix)) {
                v.push(format!("alias:{}", a));
            }
        }
        for s in ["+", "-", "*", "/", "<", "<=", ">", ">=", ",", "&", "'n'", "'s", "'re", "\"\"", "."] {
            v.push(format!("alias:{}", s));
        }
        for s in [
            "comment", "multiline_comment", "noise", "case_changed", "crlf", "glued_suffix", "list_operand", "cmp_chain", "else_outer",
            "function_terminated_by_if_else", "empty_block", "multi_block", "subscript", "call_expr", "roll_expr", "poetic_expr_rhs",
            "list_of_more_than_8", "more_than_8_arguments",
        ] {
            v.push(s.into());
        }
        v
    }
}
