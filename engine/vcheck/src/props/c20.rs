//! C20 — the command-line tool behaves exactly like the library on the same file.
//! Oracle: differential between the real `rrss` binary (built from /repo, no hooks) run as a
//! subprocess and the library called in-process on the same text and the same standard input.

use crate::harness::{Outcome, Prop, Tier};
use crate::run::{exec_rrss, fnv, fnv_str, guarded, parse_rrss, Caught, Limits as RLimits};
use engine_core::gen::arrays::ArrGen;
use engine_core::gen::dicts::gen_dict_program;
use engine_core::gen::flow::FlowGen;
use engine_core::gen::funcs::FnGen;
use engine_core::gen::io::IoGen;
use engine_core::gen::lintprog::LintGen;
use engine_core::gen::soup;
use engine_core::gen::syntax::{SynCfg, SynGen};
use engine_core::gen::wild::gen_wild;
use engine_core::render::{render, RenderOpts};
use engine_core::tape::Tape;
use serde::{Deserialize, Serialize};
use serde_json::{json, Value};
use std::fs::{File, OpenOptions};
use std::path::{Path, PathBuf};
use std::process::{Command, Stdio};
use std::sync::atomic::{AtomicU64, Ordering};
use std::time::{Duration, Instant};

pub struct C20;

#[derive(Clone, Debug, Serialize, Deserialize)]
pub enum Case {
    /// a program file and a standard input: exec (separate and merged streams), lint, parse
    Prog { src: String, stdin: Vec<u8>, origin: String },
    /// a usage the tool must refuse with a non-zero exit status; `{missing}` = a path that does not
    /// exist, `{dir}` = an existing directory, `{ok}` = an existing valid program file
    Usage { args: Vec<String>, kind: String },
}

fn cli_bin() -> PathBuf {
    match std::env::var("VCHECK_RRSS_BIN") {
        Ok(p) if Path::new(&p).is_file() => PathBuf::from(p),
        _ => {
            eprintln!("INCONCLUSIVE property=C20: VCHECK_RRSS_BIN does not name the rrss binary (run through ./check)");
            std::process::exit(2);
        }
    }
}

fn work_dir() -> PathBuf {
    let base = std::env::var("VCHECK_WORK").unwrap_or_else(|_| format!("{}/work/c20-{}", crate::harness::VERIF_ROOT, std::process::id()));
    let p = PathBuf::from(base);
    let _ = std::fs::create_dir_all(&p);
    p
}

pub fn cleanup() {
    if std::env::var("VCHECK_WORK").is_err() {
        let _ = std::fs::remove_dir_all(format!("{}/work/c20-{}", crate::harness::VERIF_ROOT, std::process::id()));
    }
}

static COUNTER: AtomicU64 = AtomicU64::new(0);

struct Scratch {
    dir: PathBuf,
}

impl Scratch {
    fn new() -> Self {
        let n = COUNTER.fetch_add(1, Ordering::Relaxed);
        let dir = work_dir().join(format!("case{}", n));
        let _ = std::fs::create_dir_all(&dir);
        Scratch { dir }
    }
    fn path(&self, name: &str) -> PathBuf {
        self.dir.join(name)
    }
}

impl Drop for Scratch {
    fn drop(&mut self) {
        let _ = std::fs::remove_dir_all(&self.dir);
    }
}

#[derive(Debug)]
struct Ran {
    stdout: Vec<u8>,
    stderr: Vec<u8>,
    /// Some(code) for a normal exit, None when killed by a signal
    code: Option<i32>,
    signal: Option<i32>,
}

enum RunErr {
    Timeout,
    Spawn(String),
}

/// Run the tool with files for all three standard streams (no pipes: nothing can dead-lock and a
/// hanging tool is noticed by polling).  `merged` sends stdout and stderr to ONE append-mode file.
fn run_cli(s: &Scratch, tag: &str, args: &[std::ffi::OsString], stdin: &[u8], merged: bool) -> Result<Ran, RunErr> {
    let inp = s.path(&format!("{}.in", tag));
    let outp = s.path(&format!("{}.out", tag));
    let errp = s.path(&format!("{}.err", tag));
    std::fs::write(&inp, stdin).map_err(|e| RunErr::Spawn(e.to_string()))?;
    let open_out = |p: &Path| OpenOptions::new().create(true).append(true).open(p).map_err(|e| RunErr::Spawn(e.to_string()));
    let out_f = open_out(&outp)?;
    let err_f = if merged { out_f.try_clone().map_err(|e| RunErr::Spawn(e.to_string()))? } else { open_out(&errp)? };
    let in_f = File::open(&inp).map_err(|e| RunErr::Spawn(e.to_string()))?;
    let mut child = Command::new(cli_bin())
        .args(args)
        .current_dir(&s.dir)
        .env("NO_COLOR", "1")
        .env_remove("CLICOLOR_FORCE")
        .env_remove("RUST_BACKTRACE")
        .stdin(Stdio::from(in_f))
        .stdout(Stdio::from(out_f))
        .stderr(Stdio::from(err_f))
        .spawn()
        .map_err(|e| RunErr::Spawn(e.to_string()))?;
    let t0 = Instant::now();
    let mut nap = 50u64;
    let status = loop {
        match child.try_wait() {
            Ok(Some(st)) => break st,
            Ok(None) => {
                if t0.elapsed() > Duration::from_secs(20) {
                    let _ = child.kill();
                    let _ = child.wait();
                    return Err(RunErr::Timeout);
                }
                std::thread::sleep(Duration::from_micros(nap));
                nap = (nap * 2).min(2000);
            }
            Err(e) => return Err(RunErr::Spawn(e.to_string())),
        }
    };
    use std::os::unix::process::ExitStatusExt;
    Ok(Ran {
        stdout: std::fs::read(&outp).unwrap_or_default(),
        stderr: if merged { vec![] } else { std::fs::read(&errp).unwrap_or_default() },
        code: status.code(),
        signal: status.signal(),
    })
}

/// `rrss parse` on a text, output discarded: Some(how it died) when the tool was killed by a signal or panicked.
/// None when it ended normally (whatever its verdict on the text), when no tool is configured, or on a time-out
/// (counted by the caller).  Used by C01 for long flat texts: the tool is a plain build of the repository (debug =
/// no optimisation at all) running with a 2 MiB stack, the default of every thread a Rust program spawns.
pub fn tool_dies_parsing(src: &str) -> Result<Option<String>, &'static str> {
    let Some(bin) = std::env::var_os("VCHECK_RRSS_BIN") else { return Err("no_tool_configured") };
    let s = Scratch::new();
    let f = s.path("flat.rock");
    if std::fs::write(&f, src).is_err() {
        return Err("cannot_write_scratch_file");
    }
    // with the 2 MiB stack every thread spawned by a Rust program has by default (`ulimit -s` applies to the tool's main thread)
    let mut child = match Command::new("sh")
        .arg("-c")
        .arg("ulimit -s 2048; exec \"$0\" parse \"$1\"")
        .arg(bin)
        .arg(&f)
        .current_dir(&s.dir)
        .stdin(Stdio::null())
        .stdout(Stdio::null())
        .stderr(Stdio::null())
        .spawn()
    {
        Ok(c) => c,
        Err(_) => return Err("cli_spawn_failed"),
    };
    let t0 = Instant::now();
    let status = loop {
        match child.try_wait() {
            Ok(Some(st)) => break st,
            Ok(None) => {
                if t0.elapsed() > Duration::from_secs(100) {
                    let _ = child.kill();
                    let _ = child.wait();
                    return Err("cli_timeout");
                }
                std::thread::sleep(Duration::from_millis(5));
            }
            Err(_) => return Err("cli_wait_failed"),
        }
    };
    use std::os::unix::process::ExitStatusExt;
    if let Some(sig) = status.signal() {
        return Ok(Some(format!("was killed by signal {}", sig)));
    }
    if status.code() == Some(101) {
        return Ok(Some("exited with status 101 (panic)".into()));
    }
    Ok(None)
}

fn os(v: &[&str]) -> Vec<std::ffi::OsString> {
    v.iter().map(|s| std::ffi::OsString::from(*s)).collect()
}

fn show(b: &[u8]) -> String {
    let s = String::from_utf8_lossy(b);
    if s.len() > 1500 {
        let mut cut = 1500;
        while !s.is_char_boundary(cut) {
            cut -= 1;
        }
        format!("{:?}… ({} bytes)", &s[..cut], b.len())
    } else {
        format!("{:?}", s)
    }
}

fn crashed(r: &Ran) -> Option<String> {
    if let Some(sig) = r.signal {
        return Some(format!("the tool was killed by signal {}", sig));
    }
    if r.code == Some(101) {
        return Some("the tool exited with status 101 (panic)".into());
    }
    None
}

/// what the library says about this text and input
struct LibView {
    /// the library's error message without any prefix ("" = none) and its sort ("parse" / "runtime")
    err_msg: String,
    err_sort: &'static str,
    /// (line, issue, suggestions) of every diagnostic, in the library's order
    diags: Vec<(u32, String, Vec<String>)>,
    exec_stdout: Vec<u8>,
    /// "" | "Parse error: ...\n" | "Runtime error: ...\n"
    exec_stderr: String,
    lint_stdout: String,
    lint_stderr: String,
    parse_stdout: String,
    parse_stderr: String,
    class: &'static str,
}

fn library_view(src: &str, stdin: &[u8]) -> Result<LibView, Outcome> {
    let tree = match parse_rrss(src, Some(crate::run::parse_fuel_for(src))) {
        Caught::Done(Ok(t)) => t,
        Caught::Done(Err(e)) => {
            let msg = format!("Parse error: {}\n", e.text);
            return Ok(LibView {
                err_msg: e.text.clone(),
                err_sort: "parse",
                diags: vec![],
                exec_stdout: vec![],
                exec_stderr: msg.clone(),
                lint_stdout: String::new(),
                lint_stderr: msg.clone(),
                parse_stdout: String::new(),
                parse_stderr: msg,
                class: "parse_error",
            });
        }
        // crashes of the library are C01's business
        Caught::Panic(_) => return Err(Outcome::discard("library_parse_panic")),
        Caught::Budget(_) => return Err(Outcome::discard("library_parse_fuel")),
    };
    let diags = match guarded(|| rrss::linter::standard_linter().run(&tree).diags) {
        Caught::Done(d) => d,
        _ => return Err(Outcome::discard("library_lint_panic")),
    };
    let mut lint_stdout = String::new();
    if diags.is_empty() {
        lint_stdout.push_str("No lint issues found :)");
    }
    for d in &diags {
        lint_stdout.push_str(&format!("Lint issue: (line {}) {}", d.line, d.issue));
        for s in &d.suggestions {
            lint_stdout.push_str("\n\t");
            lint_stdout.push_str(s);
        }
        lint_stdout.push('\n');
    }
    let parse_stdout = format!("{:#?}\n", tree);
    let (c, out) = exec_rrss(&tree, stdin, RLimits { exec_fuel: Some(3000), alloc_cap: Some(1_000_000) });
    match c {
        Caught::Done(()) => {}
        Caught::Panic(_) => return Err(Outcome::discard("library_exec_panic")),
        Caught::Budget(_) => return Err(Outcome::discard("resource_bound")),
    }
    let (exec_stderr, class) = match &out.err {
        None => (String::new(), "ok"),
        Some((_, msg)) => (format!("Runtime error: {}\n", msg), if out.stdout.is_empty() { "runtime_error" } else { "runtime_error_after_output" }),
    };
    Ok(LibView {
        err_msg: out.err.as_ref().map_or(String::new(), |(_, m)| m.clone()),
        err_sort: if out.err.is_some() { "runtime" } else { "" },
        diags: diags.iter().map(|d| (d.line, d.issue.clone(), d.suggestions.clone())).collect(),
        exec_stdout: out.stdout,
        exec_stderr, lint_stdout,
        lint_stderr: String::new(),
        parse_stdout,
        parse_stderr: String::new(),
        class,
    })
}

/// is `text` an error report of the given sort carrying the library's message?  Exact wording of the prefix is not
/// demanded: the text must name the sort (`parse` / `runtime`, any case) before the message and end after it
fn reports_error(text: &[u8], sort: &str, msg: &str) -> bool {
    let t = String::from_utf8_lossy(text);
    if sort.is_empty() {
        return t.is_empty();
    }
    match t.find(msg) {
        Some(p) => t[..p].to_lowercase().contains(sort) && t[p + msg.len()..].trim().is_empty(),
        None => false,
    }
}

/// all diagnostics, in order, each with its line number, issue and suggestions (whatever the layout around them)
fn prints_diags(out: &[u8], diags: &[(u32, String, Vec<String>)]) -> Result<(), String> {
    let t = String::from_utf8_lossy(out);
    let mut at = 0usize;
    for (k, (line, issue, sugg)) in diags.iter().enumerate() {
        let p = t[at..].find(issue.as_str()).ok_or_else(|| format!("diagnostic #{} ({:?}) is not printed (after the previous one)", k, issue))?;
        let head = &t[at..at + p];
        if !head.contains(&line.to_string()) {
            return Err(format!("diagnostic #{} is printed without its line number {}", k, line));
        }
        at += p + issue.len();
        for s in sugg {
            let q = t[at..].find(s.as_str()).ok_or_else(|| format!("suggestion {:?} of diagnostic #{} is not printed", s, k))?;
            at += q + s.len();
        }
    }
    Ok(())
}

fn squeeze(s: &str) -> String {
    s.chars().filter(|c| !c.is_whitespace() && *c != ',').collect()
}

fn check_prog(src: &str, stdin: &[u8], origin: &str) -> Outcome {
    let lib = match library_view(src, stdin) {
        Ok(l) => l,
        Err(o) => return o,
    };
    let s = Scratch::new();
    // file names with a blank and a non-ASCII letter now and then
    let fname = match fnv_str(src) % 4 {
        0 => "prog.rock",
        1 => "my prog.rock",
        2 => "prögrämm.rock",
        _ => "p",
    };
    if std::fs::write(s.path(fname), src).is_err() {
        return Outcome::discard("cannot_write_scratch");
    }
    let ctx = |what: &str| format!("{}\n--- stdin: {}\n--- program ({}):\n{}", what, show(stdin), origin, src);
    macro_rules! run {
        ($tag:expr, $args:expr, $stdin:expr, $merged:expr) => {
            match run_cli(&s, $tag, &os($args), $stdin, $merged) {
                Ok(r) => r,
                Err(RunErr::Timeout) => return Outcome::discard_env("cli_timeout"),
                Err(RunErr::Spawn(e)) => {
                    eprintln!("C20: cannot run the tool: {}", e);
                    return Outcome::discard_env("cli_spawn_failed");
                }
            }
        };
    }
    let mut digest = 0u64;
    // ---- exec, separate streams
    let r = run!("exec", &["exec", fname], stdin, false);
    if let Some(c) = crashed(&r) {
        return Outcome::fail(ctx(&format!("`rrss exec`: {}; stderr {}", c, show(&r.stderr))));
    }
    if r.stdout != lib.exec_stdout {
        return Outcome::fail(ctx(&format!("`rrss exec` standard output differs from the library's output\n--- tool:    {}\n--- library: {}", show(&r.stdout), show(&lib.exec_stdout))));
    }
    if r.stderr != lib.exec_stderr.as_bytes() && !reports_error(&r.stderr, lib.err_sort, &lib.err_msg) {
        return Outcome::fail(ctx(&format!("`rrss exec` standard error differs from the prefixed library error\n--- tool:    {}\n--- library: {}", show(&r.stderr), show(lib.exec_stderr.as_bytes()))));
    }
    digest ^= fnv(&r.stdout) ^ fnv(&r.stderr).rotate_left(7) ^ (r.code.unwrap_or(-1) as u64).rotate_left(50);
    // ---- exec, both streams on one file: the error comes after all output
    let m = run!("merged", &["exec", fname], stdin, true);
    let mut want = lib.exec_stdout.clone();
    want.extend_from_slice(lib.exec_stderr.as_bytes());
    let merged_ok = m.stdout == want || (m.stdout.starts_with(&lib.exec_stdout) && reports_error(&m.stdout[lib.exec_stdout.len()..], lib.err_sort, &lib.err_msg));
    if crashed(&m).is_some() || !merged_ok {
        return Outcome::fail(ctx(&format!("`rrss exec` with both streams on one file: expected the program's output followed by the error\n--- tool:     {}\n--- expected: {}", show(&m.stdout), show(&want))));
    }
    // ---- lint
    let l = run!("lint", &["lint", fname], b"", false);
    if let Some(c) = crashed(&l) {
        return Outcome::fail(ctx(&format!("`rrss lint`: {}; stderr {}", c, show(&l.stderr))));
    }
    let lint_exact = l.stdout == lib.lint_stdout.as_bytes() && l.stderr == lib.lint_stderr.as_bytes();
    let lint_loose = if lib.err_sort == "parse" {
        l.stdout.is_empty() && reports_error(&l.stderr, "parse", &lib.err_msg)
    } else {
        l.stderr.is_empty() && prints_diags(&l.stdout, &lib.diags).is_ok() && (!lib.diags.is_empty() || !l.stdout.contains(&b'`'))
    };
    if !lint_exact && !lint_loose {
        let why = prints_diags(&l.stdout, &lib.diags).err().unwrap_or_default();
        return Outcome::fail(ctx(&format!(
            "`rrss lint` does not print the library's diagnostics ({})\n--- tool stdout: {}\n--- expected:    {}\n--- tool stderr: {}\n--- expected:    {}",
            why,
            show(&l.stdout),
            show(lib.lint_stdout.as_bytes()),
            show(&l.stderr),
            show(lib.lint_stderr.as_bytes())
        )));
    }
    digest ^= fnv(&l.stdout).rotate_left(13);
    // ---- parse
    let p = run!("parse", &["parse", fname], b"", false);
    if let Some(c) = crashed(&p) {
        return Outcome::fail(ctx(&format!("`rrss parse`: {}; stderr {}", c, show(&p.stderr))));
    }
    let parse_exact = p.stdout == lib.parse_stdout.as_bytes() && p.stderr == lib.parse_stderr.as_bytes();
    // layout of the tree dump is free (`{:?}` or `{:#?}`): compared without blanks and commas
    let parse_loose = if lib.err_sort == "parse" {
        p.stdout.is_empty() && reports_error(&p.stderr, "parse", &lib.err_msg)
    } else {
        p.stderr.is_empty() && squeeze(&String::from_utf8_lossy(&p.stdout)) == squeeze(&lib.parse_stdout)
    };
    if !parse_exact && !parse_loose {
        let a = String::from_utf8_lossy(&p.stdout).into_owned();
        let first = a.lines().zip(lib.parse_stdout.lines()).position(|(x, y)| x != y).unwrap_or(0);
        return Outcome::fail(ctx(&format!(
            "`rrss parse` does not print the library's syntax tree (first differing line {}: tool {:?} vs library {:?}; {} vs {} bytes); stderr tool {} expected {}",
            first + 1,
            a.lines().nth(first),
            lib.parse_stdout.lines().nth(first),
            p.stdout.len(),
            lib.parse_stdout.len(),
            show(&p.stderr),
            show(lib.parse_stderr.as_bytes())
        )));
    }
    digest ^= fnv(&p.stdout).rotate_left(29);
    let mut o = Outcome::pass();
    o.evals = 4;
    o.digest = digest;
    o.nontrivial = !lib.exec_stdout.is_empty() || lib.class != "ok";
    o.labels.push(format!("class:{}", lib.class));
    o.labels.push(format!("origin:{}", origin));
    if src.contains("isten") && !stdin.is_empty() {
        o.labels.push("stdin_offered".into());
    }
    if std::str::from_utf8(stdin).is_err() {
        o.labels.push("stdin_invalid_utf8".into());
    }
    if !lib.lint_stdout.starts_with("No lint") && !lib.lint_stdout.is_empty() {
        o.labels.push("lint_diags".into());
        if lib.lint_stdout.contains("\n\t") {
            o.labels.push("lint_suggestion".into());
        }
    }
    o.labels.push(format!("exit:{}", r.code.unwrap_or(-1)));
    o
}

fn check_usage(args: &[String], kind: &str) -> Outcome {
    let s = Scratch::new();
    let _ = std::fs::write(s.path("ok.rock"), "say 1\n");
    let _ = std::fs::create_dir_all(s.path("a_directory"));
    let real: Vec<std::ffi::OsString> = args
        .iter()
        .map(|a| {
            if a == "{invalid-utf8}" {
                use std::os::unix::ffi::OsStringExt;
                return std::ffi::OsString::from_vec(vec![b'n', b'o', 0xff, 0xfe, b'x']);
            }
            std::ffi::OsString::from(a.replace("{missing}", "no/such/file.rock").replace("{dir}", "a_directory").replace("{ok}", "ok.rock"))
        })
        .collect();
    let r = match run_cli(&s, "usage", &real, b"", false) {
        Ok(r) => r,
        Err(RunErr::Timeout) => return Outcome::discard_env("cli_timeout"),
        Err(RunErr::Spawn(_)) => return Outcome::discard_env("cli_spawn_failed"),
    };
    // the statement asks for a non-zero exit status, nothing more: a panic (status 101) or a signal is
    // recorded as a label, not judged
    if r.code == Some(0) {
        return Outcome::fail(format!(
            "bad usage {:?} ({}) exits with status 0\n--- stdout {}\n--- stderr {}",
            args,
            kind,
            show(&r.stdout),
            show(&r.stderr)
        ));
    }
    let mut o = Outcome::pass().nt(true).label(format!("usage:{}", kind));
    o.labels.push(match (r.code, r.signal) {
        (Some(c), _) => format!("usage_exit:{}", c),
        (None, s) => format!("usage_signal:{}", s.unwrap_or(0)),
    });
    if !r.stdout.is_empty() {
        o.labels.push("usage_wrote_to_stdout".into());
    }
    o.digest = r.code.unwrap_or(-1) as u64;
    o
}

const OPTS: RenderOpts = RenderOpts { alias: true, case: true, noise: false, comments: true, layout: true, crlf: false };

fn random_stdin(t: &mut Tape) -> Vec<u8> {
    let n = t.pick(5);
    let mut v = vec![];
    for i in 0..n {
        match t.pick(6) {
            0 => v.extend_from_slice(b"42"),
            1 => v.extend_from_slice("ünï çödé 日本".as_bytes()),
            2 => {}
            3 => v.extend_from_slice(&[0xff, 0xfe, b'a']),
            4 => v.extend_from_slice("x".repeat(1 + t.pick(3000)).as_bytes()),
            _ => v.extend_from_slice(format!("line{}", i).as_bytes()),
        }
        if i + 1 < n || t.chance(1, 2) {
            v.push(b'\n');
        }
    }
    v
}

/// pad a program to 8-40 KiB with comment and `say` lines full of 2-, 3- and 4-byte characters, shifted by 0-3 ASCII
/// bytes, so that some character straddles every 4 KiB / 8 KiB offset of the file
fn big_file(t: &mut Tape, tail: &str) -> String {
    let mut s = String::new();
    for _ in 0..t.pick(4) {
        s.push('x');
    }
    if !s.is_empty() {
        s = format!("({})\n", s);
    }
    let target = 8200 + t.pick(32_000);
    let atoms = ["é", "日本", "🎸", "ü", "€", "я"];
    let mut i = 0usize;
    while s.len() < target {
        let a = atoms[(i + t.pick(2)) % atoms.len()];
        let line: String = std::iter::repeat(a).take(20 + (i * 7) % 40).collect();
        if i % 3 == 0 {
            s.push_str(&format!("({})\n", line));
        } else if i % 3 == 1 {
            s.push_str(&format!("say \"{}\"\n", line));
        } else {
            s.push_str(&format!("put \"{}\" into the {}\n", line, ["ünï", "word", "élan"][i % 3]));
        }
        i += 1;
    }
    s.push_str(tail);
    s
}

fn gen_prog(t: &mut Tape) -> Case {
    let spelling = super::c02::take_spelling(t, 20);
    if t.chance(1, 25) {
        let tail = render(&FlowGen::new(t).program(), &spelling, OPTS).text;
        return Case::Prog { src: big_file(t, &tail), stdin: vec![], origin: "big_file".into() };
    }
    if t.chance(1, 25) {
        // single `say`s of big values: one long line, several lines with a long last line, a long line read from the
        // input and echoed behind a line break (whatever the output stream buffers or splits must still arrive whole)
        let unit = *t.choose(&["x", "ab", "é", "0123456789"]);
        let long = |t: &mut Tape| -> String { std::iter::repeat(unit).take(1 + (900 + t.pick(6000)) / unit.len()).collect() };
        let (a, b, c) = (long(t), long(t), long(t));
        let src = format!(
            "say \"{}\"\nsay \"head\n{}\"\nlisten to the line\nsay \"echo\n\" plus the line\nsay \"two\n\nblank then {}\"\nsay \"done\"\nsay the line at 100000\nsay 1 over nothing at 1\n",
            a, b, &c[..c.len().min(1500)]
        );
        let mut stdin = long(t).into_bytes();
        stdin.push(b'\n');
        return Case::Prog { src, stdin, origin: "long_say".into() };
    }
    if t.chance(1, 16) {
        // a runtime error whose message quotes a value that is awkward to print: the tool must print what the library says
        let hostile = *t.choose(&[
            "12\u{1b}[2J", "\u{9b}31m", "bell\u{7}", "back\u{8}space", "nul\0inside", "tab\there", "cr\rreturn", "\u{202e}rtl", "\u{feff}bom", "é\u{301}", "\u{fffd}", "‘q’ “dq”", "100%", "{}", "\\n", "a\u{85}b", "\u{2028}",
        ]);
        let via_input = t.chance(1, 2);
        let get = if via_input { "listen to the value\n".to_string() } else { format!("put \"{}\" into the value\n", hostile) };
        let fail = *t.choose(&[
            "cast the value\n",
            "knock the value down\n",
            "turn up the value\n",
            "say the value at 1 at 2\n",
            "say the value is greater than 5\n",
            "rock the list with the value, 2\njoin the list\n",
            "cut 5 into pieces with the value\n",
            "put 5 into the list at the list\nrock the list with the value\nlet the list at the list be 1\n",
            "cast the value with 99\n",
            "say the value taking 1\n",
        ]);
        let src = format!("say \"before\"\n{}{}say \"after\"\n", get, fail);
        let stdin = if via_input { format!("{}\nrest\n", hostile).into_bytes() } else { vec![] };
        return Case::Prog { src, stdin, origin: "error_quoting_an_awkward_value".into() };
    }
    let which = t.weighted(&[24, 8, 8, 10, 5, 15, 10, 10, 5, 5]);
    let (src, stdin, origin): (String, Vec<u8>, &str) = match which {
        0 => {
            let mut g = IoGen::new(t);
            let p = g.program();
            let i = g.stdin();
            (render(&p, &spelling, OPTS).text, i.into_bytes(), "io")
        }
        1 => (render(&FnGen::new(t).program(), &spelling, OPTS).text, vec![], "functions"),
        2 => (render(&ArrGen::new(t).program(), &spelling, OPTS).text, vec![], "arrays"),
        3 => (render(&FlowGen::new(t).program(), &spelling, OPTS).text, vec![], "flow"),
        4 => (render(&gen_dict_program(t).prog, &spelling, OPTS).text, vec![], "dicts"),
        5 => {
            let w = gen_wild(t, true);
            (render(&w.prog, &spelling, OPTS).text, w.stdin, "wild")
        }
        6 => (render(&LintGen::new(t).program(), &spelling, OPTS).text, random_stdin(t), "lint"),
        7 => {
            // a syntax fault on some line of a valid program
            let fault = t.pick(super::c13::FAULTS.len());
            let position = if t.chance(1, 10) { usize::MAX } else { t.pick(64) };
            let prog = SynGen::new(t, SynCfg::default()).program();
            let c = super::c13::Case { prog, spelling: spelling.clone(), position, fault, tail: 0 };
            match super::c13::inject(&c) {
                Some((src, _, _, _)) => (src, vec![], "syntax_fault"),
                None => (render(&c.prog, &spelling, OPTS).text, vec![], "grammar"),
            }
        }
        8 => {
            let snips = engine_core::snippets();
            let a = &snips[t.pick(snips.len())];
            let b = &snips[t.pick(snips.len())];
            let src = if t.chance(1, 2) { a.clone() } else { soup::mutate(a, t, b) };
            (src, random_stdin(t), "repo_snippet")
        }
        _ => (render(&SynGen::new(t, SynCfg::default()).program(), &spelling, OPTS).text, random_stdin(t), "grammar"),
    };
    // one offered input in eight starts with something a tool might be tempted to treat specially: a byte-order mark,
    // a zero-width space, a NUL, a control-Z, a lone CR, a line separator
    let mut stdin = stdin;
    if !stdin.is_empty() && t.chance(1, 8) {
        let lead = *t.choose(&["\u{feff}", "\u{feff}\u{feff}", "\u{200b}", "\0", "\u{1a}", "\r", "\u{2028}", "\u{fffe}", "\u{feff}\n"]);
        let mut v = lead.as_bytes().to_vec();
        v.extend_from_slice(&stdin);
        stdin = v;
    }
    Case::Prog { src, stdin, origin: origin.into() }
}

fn usage_cases() -> Vec<Case> {
    let u = |kind: &str, args: &[&str]| Case::Usage { args: args.iter().map(|s| s.to_string()).collect(), kind: kind.into() };
    let mut v = vec![];
    for sub in ["exec", "lint", "parse"] {
        v.push(u("missing_file", &[sub, "{missing}"]));
        v.push(u("missing_file", &[sub, "nonexistent"]));
        v.push(u("missing_file", &[sub, ""]));
        v.push(u("directory_as_file", &[sub, "{dir}"]));
        v.push(u("directory_as_file", &[sub, "."]));
        v.push(u("no_file_argument", &[sub]));
        v.push(u("extra_argument", &[sub, "{ok}", "{ok}"]));
        v.push(u("extra_argument", &[sub, "{ok}", "extra"]));
        v.push(u("missing_file_among_several", &[sub, "{missing}", "{ok}"]));
        v.push(u("missing_file_among_several", &[sub, "{ok}", "{missing}"]));
        v.push(u("missing_file_among_several", &[sub, "{missing}", "{ok}", "{ok}"]));
        v.push(u("missing_file_among_several", &[sub, "{dir}", "{ok}"]));
        v.push(u("missing_file_among_several", &[sub, "{missing}", "{missing}"]));
        v.push(u("unknown_flag", &[sub, "--frobnicate", "{ok}"]));
        v.push(u("unknown_flag", &[sub, "{ok}", "-x"]));
        v.push(u("unknown_flag", &[sub, "-q"]));
        v.push(u("invalid_utf8_path", &[sub, "{invalid-utf8}"]));
        v.push(u("file_below_a_file", &[sub, "{ok}/x"]));
    }
    v.push(u("unknown_subcommand", &["run", "{ok}"]));
    v.push(u("unknown_subcommand", &["execute", "{ok}"]));
    v.push(u("unknown_subcommand", &["EXEC", "{ok}"]));
    v.push(u("unknown_subcommand", &["{ok}"]));
    v.push(u("unknown_subcommand", &["frobnicate"]));
    v.push(u("unknown_flag", &["--frobnicate"]));
    v.push(u("unknown_flag", &["-x", "exec", "{ok}"]));
    v
}

impl Prop for C20 {
    type Case = Case;
    fn id(&self) -> &'static str {
        "C20"
    }
    fn rule(&self) -> String {
        "program files from ten sources (say/listen programs with generated input texts; function, array, control-flow and dictionary programs; wild programs that fail at run time after 0..n lines of output, with input incl. invalid UTF-8; \
         constant-assignment programs with many lint reports; valid programs with a syntax fault injected on some line; repository test programs, verbatim and token-mutated; random grammar programs; 4% files padded to 8-40 KiB with multi-byte comment/say lines so that characters straddle every buffer boundary; 4% programs that `say` single values of 1-7 KB with line breaks inside) rendered with random aliases/case/comments/layout, \
         written under four file names (plain, with a blank, non-ASCII, no extension). Each is run through the real binary four times: `exec` with separate stdout/stderr files, `exec` with both streams on ONE append-mode file, `lint`, `parse`; \
         stdout/stderr bytes must equal the library's output, `Runtime error: `/`Parse error: ` + the library's message + newline, the diagnostics rebuilt from the library's Diag values, and `{:#?}` of the library's tree; no status 101 / signal. \
         Plus a fixed list of refused usages x 3 subcommands (missing file, empty path, directory, no argument, extra argument, unknown flag, invalid UTF-8 path, unknown subcommand) and generated ones: exit status must be non-zero and not a crash. \
         non-trivial = the program writes at least one byte or fails (parse or run time), or a refused usage; distinct by (text, input) / argument list"
            .into()
    }
    fn assumptions(&self) -> Vec<String> {
        vec![
            "the tool is run with NO_COLOR=1: colour escape sequences are not part of the property".into(),
            "layout and wording around the library's data are free: an error report must name its sort (parse / runtime, any case) before the library's message and nothing after it; `lint` must print every diagnostic in order with its line number, issue and suggestions; the tree dump is compared without blanks and commas; program output on stdout is compared byte for byte".into(),
            "the exit status for program and parse errors is not specified by the statement (0 today): recorded as a label, only crashes (101/signal) are refused".into(),
            "programs whose library run exceeds 3000 loop iterations + calls or 1e6 elements per allocation are skipped (counted as resource_bound); a tool run over 20 s is counted as cli_timeout, not judged".into(),
            "standard streams of the tool are files, not pipes (std's stdout is line-buffered in both cases)".into(),
        ]
    }
    fn tape_len(&self, _t: Tier) -> usize {
        400
    }
    fn cases(&self, t: Tier) -> usize {
        t.pick(8_000, 150_000)
    }
    fn generate(&self, t: &mut Tape) -> Case {
        if t.chance(1, 25) {
            // generated refused usages: a random word as subcommand / flag / missing path
            let word: String = (0..1 + t.pick(8)).map(|_| (b'a' + t.pick(26) as u8) as char).collect();
            let sub = *t.choose(&["exec", "lint", "parse"]);
            return match t.pick(5) {
                4 => {
                    // two or three operands, at least one of them not a readable file
                    let n = 2 + t.pick(2);
                    let bad = t.pick(n);
                    let mut args = vec![sub.to_string()];
                    for i in 0..n {
                        args.push(if i == bad { (*t.choose(&["{missing}", "{dir}", "nonexistent.rock"])).to_string() } else { (*t.choose(&["{ok}", "{ok}", "{missing}"])).to_string() });
                    }
                    Case::Usage { args, kind: "missing_file_among_several".into() }
                }
                0 => Case::Usage { args: vec![sub.into(), format!("{}.rock", word)], kind: "missing_file".into() },
                1 => Case::Usage { args: vec![format!("{}x", word), "{ok}".into()], kind: "unknown_subcommand".into() },
                2 => Case::Usage { args: vec![sub.into(), format!("--{}", word), "{ok}".into()], kind: "unknown_flag".into() },
                _ => Case::Usage { args: vec![sub.into(), "{ok}".into(), word], kind: "extra_argument".into() },
            };
        }
        gen_prog(t)
    }
    fn fixed_cases(&self, _t: Tier) -> (Vec<Case>, bool) {
        let mut v = usage_cases();
        let p = |src: &str, stdin: &[u8]| Case::Prog { src: src.into(), stdin: stdin.to_vec(), origin: "fixed".into() };
        v.push(p("", b""));
        v.push(p("say 1", b""));
        v.push(p("say \"a\"\nsay 1 over 0\nsay x at 1 at 2\nsay 3\n", b""));
        v.push(p("listen to x\nsay x\nlisten to y\nsay y\nlisten\nlisten to z\nsay z", "one\ntwo\n\nthree".as_bytes()));
        v.push(p("listen to x\nsay x\n", &[0xff, 0xfe, b'\n']));
        v.push(p("say 1\nsay 2\nput 1 into\n", b""));
        v.push(p("say 1\n\n\nsay 2\n\"open\nsay 3", b""));
        v.push(p("put 5 into x\nput 5 into y\nsay x\nsay x\n", b""));
        v.push(p("x is 0\nwhile x is less than 300\nbuild x up\nsay x\n\nsay it plus\n", b""));
        for s in engine_core::snippets() {
            v.push(Case::Prog { src: s.clone(), stdin: b"3\n4\n".to_vec(), origin: "repo_snippet".into() });
        }
        (v, false)
    }
    fn check(&self, c: &Case) -> Outcome {
        match c {
            Case::Prog { src, stdin, origin } => check_prog(src, stdin, origin),
            Case::Usage { args, kind } => check_usage(args, kind),
        }
    }
    fn sample(&self, c: &Case) -> Value {
        match c {
            Case::Prog { src, stdin, origin } => json!({ "origin": origin, "src": src, "stdin": String::from_utf8_lossy(stdin) }),
            Case::Usage { args, kind } => json!({ "refused_usage": args, "kind": kind }),
        }
    }
    fn expected_labels(&self) -> Vec<String> {
        let mut v: Vec<String> = ["class:ok", "class:parse_error", "class:runtime_error", "class:runtime_error_after_output", "stdin_offered", "stdin_invalid_utf8", "lint_diags", "lint_suggestion"]
            .iter()
            .map(|s| s.to_string())
            .collect();
        for k in ["missing_file_among_several", "missing_file", "directory_as_file", "no_file_argument", "extra_argument", "unknown_flag", "unknown_subcommand", "invalid_utf8_path", "file_below_a_file"] {
            v.push(format!("usage:{}", k));
        }
        for o in ["long_say", "big_file", "io", "functions", "arrays", "flow", "dicts", "wild", "lint", "syntax_fault", "repo_snippet", "grammar", "error_quoting_an_awkward_value"] {
            v.push(format!("origin:{}", o));
        }
        v
    }
}
