//! C10 — same program and input give the same output, result and messages every time.
//! Oracle: metamorphic "run it again" (fresh hasher seeds per run: same thread, fresh threads, fresh processes).

use crate::harness::{Outcome, Prop, Tier};
use crate::run::{exec_rrss, fnv, fnv_str, guarded, parse_rrss, Caught, Limits as RLimits};
use engine_core::ast::*;
use engine_core::gen::arrays::ArrGen;
use engine_core::gen::dicts::gen_dict_program;
use engine_core::gen::funcs::FnGen;
use engine_core::gen::wild::gen_wild;
use engine_core::render::render_canonical;
use engine_core::tape::Tape;
use serde::{Deserialize, Serialize};
use serde_json::{json, Value};

pub struct C10;

/// lint reports are part of the observation once the linter no longer crashes on them (finding F8)
pub const WITH_LINT: bool = true;

#[derive(Clone, Debug, Serialize, Deserialize)]
pub enum Case {
    One { src: String, stdin: String, dict_keys: usize },
    /// cross-process leg: `n` cases generated from `seed`, digests compared with two child processes
    Batch { seed: u64, n: usize },
}

/// everything observable about one (source, input), as text
pub fn observe(src: &str, stdin: &str) -> Result<String, String> {
    let tree = match parse_rrss(src, Some(crate::run::parse_fuel_for(src))) {
        Caught::Done(Ok(t)) => t,
        Caught::Done(Err(e)) => return Ok(format!("parse error: {}", e.text)),
        Caught::Panic(p) => return Err(format!("parse panicked: {}", p)),
        Caught::Budget(b) => return Err(format!("parse fuel: {}", b)),
    };
    let mut obs = String::new();
    if WITH_LINT {
        match guarded(|| rrss::linter::standard_linter().run(&tree).diags) {
            Caught::Done(diags) => {
                for d in diags {
                    obs.push_str(&format!("lint {}: {} {:?}\n", d.line, d.issue, d.suggestions));
                }
            }
            Caught::Panic(p) => return Err(format!("linter panicked: {}", p)),
            Caught::Budget(b) => return Err(format!("linter budget: {}", b)),
        }
    }
    let (c, out) = exec_rrss(&tree, stdin.as_bytes(), RLimits { exec_fuel: Some(300), alloc_cap: Some(1_000_000) });
    match c {
        Caught::Done(()) => {}
        Caught::Panic(p) => return Err(format!("interpreter panicked: {}", p)),
        Caught::Budget(_) => return Ok("resource bound".into()),
    }
    obs.push_str(&format!("stdout {:?}\nresult {:?}\n", out.stdout_str(), out.err));
    Ok(obs)
}

fn repeated(src: &str, stdin: &str) -> Result<(String, u32), String> {
    let first = observe(src, stdin)?;
    let mut runs = 1u32;
    // same thread: every new table gets a new hasher key
    for i in 0..5 {
        runs += 1;
        let again = observe(src, stdin)?;
        if again != first {
            return Err(format!("run #{} in the same thread differs from the first run\n--- first:\n{}--- this run:\n{}", i + 2, first, again));
        }
    }
    // fresh threads: fresh random keys
    for i in 0..2 {
        runs += 1;
        let (s, i2) = (src.to_string(), stdin.to_string());
        let again = std::thread::Builder::new()
            .stack_size(64 << 20)
            .spawn(move || {
                crate::run::install_panic_hook();
                observe(&s, &i2)
            })
            .map_err(|e| e.to_string())?
            .join()
            .map_err(|_| "observer thread died".to_string())??;
        if again != first {
            return Err(format!("run in fresh thread #{} differs from the first run\n--- first:\n{}--- this run:\n{}", i + 1, first, again));
        }
    }
    Ok((first, runs))
}

/// One fixed program shape (a branch, a function, a loop, each holding poetic and plain constants) with freshly drawn
/// constants: consecutive programs occupy the same memory and the same positions, so anything remembered by address,
/// position or shape from an earlier program (a cache that is never cleared) changes the output — but not in a fresh
/// thread or process, where nothing has been remembered yet.
fn same_shape(t: &mut Tape) -> Program {
    let words = |t: &mut Tape| -> Vec<PoeticElem> {
        (0..1 + t.pick(3)).map(|_| PoeticElem::Word((*t.choose(&["a", "an", "big", "love", "night", "desire", "without", "lovestruck", "heartbreak"])).to_string())).collect()
    };
    let (prize, cost, list, n, f, p) = (simple("prize"), simple("cost"), simple("list"), simple("n"), simple("Tester"), simple("dummy"));
    let poetic = |dest: &Name, w: Vec<PoeticElem>| Stmt::PoeticNum { dest: Lhs::Ident(Ident::Name(dest.clone())), rhs: PoeticRhs::Literal(w) };
    let s = vec![
        poetic(&prize, words(t)),
        say(var(&prize)),
        Stmt::If { cond: lit(Lit::Bool(true)), then: vec![poetic(&prize, words(t)), say(var(&prize)), say(num(t.pick(1000) as f64)), say(strlit(["x", "yy", "zzz"][t.pick(3)]))], els: None },
        Stmt::Function {
            name: f.clone(),
            params: vec![p.clone()],
            body: vec![poetic(&cost, words(t)), Stmt::Push { array: pvar(&list), value: Some(PushRhs::Poetic(words(t))) }, say(Expr::Primary(Primary::Subscript(Box::new(pvar(&list)), Box::new(Primary::Lit(Lit::Num(0.0)))))), Stmt::Return { value: bin(BinOp::Plus, var(&cost), num(t.pick(50) as f64)) }],
        },
        say(Expr::Primary(Primary::Call(f.clone(), vec![num(1.0)]))),
        put(num(0.0), &n),
        Stmt::Until { cond: bin(BinOp::Eq, var(&n), num(2.0)), body: vec![Stmt::Inc { dest: Ident::Name(n.clone()), amount: 1 }, poetic(&cost, words(t)), say(bin(BinOp::Multiply, var(&cost), var(&n)))] },
        say(Expr::Primary(Primary::Call(f, vec![num(2.0)]))),
    ];
    Program::single(s)
}

fn gen_one(t: &mut Tape) -> Case {
    match t.weighted(&[50, 11, 11, 10, 8, 4, 6, 3]) {
        7 => {
            // a long song: 48-150 verses (top-level blocks), each a small lint or grammar program; anything that treats
            // big programs differently (work split up, tables that grow, shortcuts) must still give the same answer every time
            let verse = if t.chance(3, 5) {
                render_canonical(&engine_core::gen::lintprog::LintGen::new(t).program())
            } else {
                render_canonical(&engine_core::gen::syntax::SynGen::new(t, engine_core::gen::syntax::SynCfg { max_block_len: 3, ..engine_core::gen::syntax::SynCfg::default() }).program())
            };
            let second = render_canonical(&engine_core::gen::lintprog::LintGen::new(t).program());
            let n = 48 + t.pick(103);
            let mut src = String::new();
            for i in 0..n {
                src.push_str(if i % 5 == 4 { &second } else { &verse });
                if !src.ends_with('\n') {
                    src.push('\n');
                }
                src.push('\n');
            }
            Case::One { src, stdin: String::new(), dict_keys: 0 }
        }
        6 => Case::One { src: render_canonical(&same_shape(t)), stdin: String::new(), dict_keys: 0 },
        4 => {
            // grammar programs: every statement kind at every depth (poetic literals inside loops, branches and functions):
            // state kept between runs in one thread or process shows as a difference from a fresh thread / process
            let p = engine_core::gen::syntax::SynGen::new(t, engine_core::gen::syntax::SynCfg::default()).program();
            Case::One { src: render_canonical(&p), stdin: "1\n2\n".into(), dict_keys: 0 }
        }
        5 => Case::One { src: render_canonical(&engine_core::gen::lintprog::LintGen::new(t).program()), stdin: String::new(), dict_keys: 0 },
        0 => {
            let d = gen_dict_program(t);
            Case::One { src: render_canonical(&d.prog), stdin: String::new(), dict_keys: d.keys }
        }
        1 => Case::One { src: render_canonical(&ArrGen::new(t).program()), stdin: String::new(), dict_keys: 0 },
        2 => Case::One { src: render_canonical(&FnGen::new(t).program()), stdin: String::new(), dict_keys: 0 },
        _ => {
            let w = gen_wild(t, true);
            Case::One { src: render_canonical(&w.prog), stdin: String::from_utf8_lossy(&w.stdin).into_owned(), dict_keys: 0 }
        }
    }
}

fn batch_cases(seed: u64, n: usize) -> Vec<(String, String)> {
    // a plain splitmix stream feeds the tape: no RNG state outside of (seed, n)
    let mut x = seed;
    let mut next = move || {
        x = x.wrapping_add(0x9e3779b97f4a7c15);
        let mut z = x;
        z = (z ^ (z >> 30)).wrapping_mul(0xbf58476d1ce4e5b9);
        z = (z ^ (z >> 27)).wrapping_mul(0x94d049bb133111eb);
        (z ^ (z >> 31)) as u32
    };
    (0..n)
        .map(|_| {
            let tape: Vec<u32> = (0..200).map(|_| next()).collect();
            let mut t = Tape::new(&tape);
            match gen_one(&mut t) {
                Case::One { src, stdin, .. } => (src, stdin),
                _ => unreachable!(),
            }
        })
        .collect()
}

/// child process entry: prints one digest per case
pub fn child_main(seed: u64, n: usize) -> i32 {
    crate::run::install_panic_hook();
    let h = std::thread::Builder::new()
        .stack_size(1 << 30)
        .spawn(move || {
            let mut out = Vec::new();
            for (src, stdin) in batch_cases(seed, n) {
                out.push(match observe(&src, &stdin) {
                    Ok(o) => fnv_str(&o),
                    Err(e) => fnv_str(&e) ^ 1,
                });
            }
            println!("{}", serde_json::to_string(&out).unwrap());
        })
        .unwrap();
    h.join().map(|_| 0).unwrap_or(2)
}

impl Prop for C10 {
    type Case = Case;
    fn id(&self) -> &'static str {
        "C10"
    }
    fn rule(&self) -> String {
        "programs: 60% aimed at hash order (an array with 2-6 string/boolean/null/mysterious keys and 0-3 sequence elements, a copy built in reverse insertion order, then join with/without delimiter incl. a \
         non-string element so that the error names one, print, equality and ordering of the two arrays, cut / index-by-array / rounding errors whose messages render the array), 46% general programs from the \
         array-history, function, wild, grammar (every statement kind at every depth) and constant-assignment generators, plus one fixed program shape with freshly drawn constants (state remembered from an earlier program by address or position shows as a difference from a fresh thread / process). Each (source, input) is parsed and executed 6 times in one thread (every new table gets a new hasher key) and in 2 fresh threads (fresh random keys); \
         16 batches of 150 cases are additionally replayed in 2 fresh processes each. Output bytes, success/error and the rendered error text must be identical. \
         non-trivial = the program builds >= 2 dictionary entries in one array and then joins/prints/compares/errs on it; distinct by source+input"
            .into()
    }
    fn assumptions(&self) -> Vec<String> {
        vec![
            "hasher seeds cannot be chosen: std re-keys per table, thread and process; with n >= 2 keys a leak shows in one pair of runs with probability >= 1/2, 10 runs per case".into(),
            "lint reports are compared too once WITH_LINT is switched on (after finding F8 is repaired)".into(),
        ]
    }
    fn tape_len(&self, _t: Tier) -> usize {
        300
    }
    fn cases(&self, t: Tier) -> usize {
        t.pick(20_000, 1_000_000)
    }
    fn generate(&self, t: &mut Tape) -> Case {
        gen_one(t)
    }
    fn fixed_cases(&self, t: Tier) -> (Vec<Case>, bool) {
        let n = t.pick(150, 3000);
        ((0..16).map(|i| Case::Batch { seed: 0xC10 + i as u64, n }).collect(), false)
    }
    fn check(&self, c: &Case) -> Outcome {
        match c {
            Case::One { src, stdin, dict_keys } => match repeated(src, stdin) {
                Ok((obs, runs)) => {
                    let mut o = Outcome::pass().nt(*dict_keys >= 2);
                    o.evals = runs;
                    o.digest = fnv_str(&obs);
                    if *dict_keys >= 2 {
                        o.labels.push(format!("dict_keys:{}", dict_keys));
                        if obs.contains("result Some") {
                            o.labels.push("dict_program_ends_in_error".into());
                        }
                    } else {
                        o.labels.push("general_program".into());
                    }
                    if obs.starts_with("parse error") {
                        o.labels.push("parse_error".into());
                    }
                    o
                }
                Err(m) => Outcome::fail(format!("{}\n--- stdin: {:?}\n--- program:\n{}", m, stdin, src)),
            },
            Case::Batch { seed, n } => {
                let cases = batch_cases(*seed, *n);
                let mut mine: Vec<u64> = vec![];
                for (src, stdin) in &cases {
                    mine.push(match observe(src, stdin) {
                        Ok(o) => fnv_str(&o),
                        Err(e) => return Outcome::fail(format!("{}\n--- program:\n{}", e, src)),
                    });
                }
                let exe = match std::env::current_exe() {
                    Ok(e) => e,
                    Err(e) => return Outcome::discard(format!("no current_exe: {}", e)),
                };
                for round in 0..2 {
                    let out = std::process::Command::new(&exe).args(["C10CHILD", &seed.to_string(), &n.to_string()]).output();
                    let out = match out {
                        Ok(o) if o.status.success() => o,
                        Ok(o) => return Outcome::fail(format!("child process {} failed: {:?} {}", round, o.status, String::from_utf8_lossy(&o.stderr))),
                        Err(e) => return Outcome::discard_env(format!("cannot spawn child: {}", e)),
                    };
                    let theirs: Vec<u64> = match serde_json::from_slice(&out.stdout) {
                        Ok(v) => v,
                        Err(e) => return Outcome::fail(format!("child output unreadable: {}", e)),
                    };
                    if let Some(i) = (0..mine.len()).find(|i| theirs.get(*i) != Some(&mine[*i])) {
                        return Outcome::fail(format!(
                            "a fresh process observes something else than this process for batch case #{}\n--- stdin: {:?}\n--- program:\n{}",
                            i, cases[i].1, cases[i].0
                        ));
                    }
                }
                let mut o = Outcome::pass().nt(true).label("cross_process_batch");
                o.evals = 3 * *n as u32;
                o.digest = fnv(&mine.iter().flat_map(|d| d.to_le_bytes()).collect::<Vec<u8>>());
                o
            }
        }
    }
    fn sample(&self, c: &Case) -> Value {
        match c {
            Case::One { src, stdin, dict_keys } => json!({ "src": src, "stdin": stdin, "dict_keys": dict_keys }),
            Case::Batch { seed, n } => json!({ "cross_process_batch_seed": seed, "cases": n, "first": batch_cases(*seed, 1).get(0).map(|c| c.0.clone()) }),
        }
    }
    fn expected_labels(&self) -> Vec<String> {
        ["dict_keys:2", "dict_keys:3", "dict_keys:4", "dict_keys:5", "dict_keys:6", "dict_program_ends_in_error", "general_program", "cross_process_batch"]
            .iter()
            .map(|s| s.to_string())
            .collect()
    }
}
