//! C01 — lexing and parsing are total.

use super::textgen::{gen_text, TextCase};
use crate::harness::{Outcome, Prop, Tier};
use crate::run::{fnv_str, parse_fuel_for, parse_rrss, Caught};
use engine_core::gen::soup;
use engine_core::kw;
use engine_core::tape::Tape;
use serde_json::{json, Value};

pub struct C01;

pub fn class_representatives() -> Vec<String> {
    let mut v: Vec<String> = kw::TABLE.iter().map(|(_, a)| a[0].to_string()).collect();
    for s in ["x", "Tommy", "5", "\"s\"", "\n", ",", ".", "&", "+", "-", "*", "/", "<", ">", "'s", "'n'", "(c)", "ab1", "_", "isn't"] {
        v.push(s.to_string());
    }
    v
}

pub fn nesting_depth(src: &str) -> usize {
    // crude: longest run of repeated chain words / block openers
    let mut best = 0usize;
    let mut run = 0usize;
    for w in src.split_whitespace() {
        let lw = w.to_ascii_lowercase();
        if matches!(lw.as_str(), "not" | "-" | "at" | "if" | "while" | "until" | "roll" | "taking" | "y" | "x" | "g" | "f") {
            run += 1;
            best = best.max(run);
        } else {
            run = 0;
        }
    }
    best / 2
}

/// (prefix, repeated unit, suffix): texts without any nesting, whatever their length
pub const FLOODS: &[(&str, &str, &str)] = &[
    ("say 1\n", "(la) ", "\nsay 2\n"),
    ("say 1\n", "(la)", "\nsay 2\n"),
    ("say 1 ", "(la) ", "\nsay 2\n"),
    ("say 1\n", "\n", "say 2\n"),
    ("say 1\n", " \n", "say 2\n"),
    ("say 1\n", "\t\r\n", "say 2\n"),
    ("", "say 1\n", ""),
    ("", "x is 1\n", ""),
    ("", "say \"s\"\n", ""),
    ("", "(c)\n", "say 1\n"),
    ("", "if 1\nsay 1\n\n", ""),
    ("", "f takes x\ngive back x\n\n", ""),
    ("x is ", "a ", "\n"),
    ("x is ", "é ", "\n"),
    ("x is a ", ". ", "\n"),
    ("x is a", "'s", "\n"),
    ("x is a", "-a", "\n"),
    ("x says ", "word ", "\n"),
    ("rock x with ", "1, ", "1\n"),
    ("say 1 plus ", "1, ", "1\n"),
    ("say f taking ", "1 'n' ", "1\n"),
    ("f takes ", "x, ", "y\nsay 1\n\n"),
    ("say 1\n", "'", "\n"),
    ("say 1 ", ", ", "\n"),
    ("say \"", "a\n", "\"\n"),
    ("say 1 (", "a\n", ")\n"),
    ("say ", "\"a\" ", "\n"),
];

impl Prop for C01 {
    type Case = TextCase;
    fn id(&self) -> &'static str {
        "C01"
    }
    fn rule(&self) -> String {
        "texts: (a) enumerated: every single ASCII character, every pair (blank or newline between) and every triple of token-class \
         representatives (one alias per keyword class, word, proper word, number, string, comment, symbols, suffixes, error tokens); \
         (b) token soup; (c) token-level mutations (delete/duplicate/swap/splice/truncate/join lines) of the repository's test programs; \
         (d) deep chains up to 400 levels; (e) 54 flat floods: 20 000 and 50 000 repetitions of one unit without any nesting (adjacent comments, blank lines, statements, one-line blocks, poetic words / periods / suffixes, list, argument and parameter entries, apostrophes, noise, lines inside one string or comment), parsed on a 2 MiB stack, in-process and by the real tool (`rrss parse`, a build without optimisation in the dev profile). non-trivial = >= 3 coarse tokens; distinct by text"
            .into()
    }
    fn assumptions(&self) -> Vec<String> {
        vec![
            "termination is decided by the parse-fuel hook: 500 x (len + 10) lexer loop iterations (measured need: <= 6 per byte)".into(),
            "both build profiles replay the same case stream; outcome digests (Ok-tree / error text) must be identical".into(),
        ]
    }
    fn tape_len(&self, _t: Tier) -> usize {
        160
    }
    fn cases(&self, t: Tier) -> usize {
        t.pick(1_500_000, 40_000_000)
    }
    fn generate(&self, t: &mut Tape) -> TextCase {
        TextCase { src: gen_text(t, false, 300) }
    }
    fn fixed_cases(&self, tier: Tier) -> (Vec<TextCase>, bool) {
        let mut v: Vec<TextCase> = vec![TextCase { src: String::new() }];
        for c in 0u8..128 {
            v.push(TextCase { src: (c as char).to_string() });
            v.push(TextCase { src: format!("say {}", c as char) });
            v.push(TextCase { src: format!("x {} y", c as char) });
        }
        let reps = class_representatives();
        for a in &reps {
            v.push(TextCase { src: a.clone() });
            for b in &reps {
                v.push(TextCase { src: format!("{} {}", a, b) });
                v.push(TextCase { src: format!("{}\n{}", a, b) });
                for c in &reps {
                    v.push(TextCase { src: format!("{} {} {}", a, b, c) });
                    if tier == Tier::Thorough {
                        v.push(TextCase { src: format!("{}\n{} {}", a, b, c) });
                        v.push(TextCase { src: format!("{} {}\n{}", a, b, c) });
                        v.push(TextCase { src: format!("{}\n\n{}\n{}", a, b, c) });
                    }
                }
            }
        }
        for s in engine_core::snippets() {
            v.push(TextCase { src: s.clone() });
            // truncation at every byte boundary of the shorter snippets
            if s.len() <= 120 {
                for i in 0..s.len() {
                    if s.is_char_boundary(i) {
                        v.push(TextCase { src: s[..i].to_string() });
                    }
                }
            }
        }
        for d in [50usize, 100, 200, 300, 400] {
            v.push(TextCase { src: format!("say {}x", "not ".repeat(d)) });
            v.push(TextCase { src: format!("say {}5", "- ".repeat(d)) });
            v.push(TextCase { src: format!("say x{}", " at y".repeat(d)) });
            v.push(TextCase { src: format!("say {}x", "roll ".repeat(d)) });
            v.push(TextCase { src: format!("say f{}", " taking g".repeat(d)) });
            v.push(TextCase { src: format!("say 1{}", " + 2 * 3".repeat(d)) });
            v.push(TextCase { src: format!("{}say 1\n", "if x\n".repeat(d)) });
            v.push(TextCase { src: format!("{}say 1\n", "while x\nuntil y\n".repeat(d / 2)) });
            v.push(TextCase { src: format!("{}say 1\n{}", "if x\n".repeat(d), "\nelse\nsay 2\n".repeat(d)) });
            v.push(TextCase { src: format!("x is {}", "abc ".repeat(d)) });
        }
        // flat floods: tens of thousands of repetitions of one unit with no nesting at all (see `check`: these are
        // parsed on a thread with an ordinary 2 MiB stack)
        let mut floods = vec![];
        for (prefix, unit, suffix) in FLOODS {
            for n in [20_000usize, 50_000] {
                floods.push(TextCase { src: format!("{}{}{}", prefix, unit.repeat(n), suffix) });
            }
        }
        // spread over the whole list (the list is cut into one contiguous chunk per thread)
        let step = v.len() / (floods.len() + 1);
        for (k, f) in floods.into_iter().enumerate().rev() {
            v.insert((k + 1) * step, f);
        }
        (v, true)
    }
    fn check(&self, c: &TextCase) -> Outcome {
        let src: Box<str> = c.src.clone().into_boxed_str();
        let ntoks = soup::coarse_tokens(&src).iter().filter(|t| !t.trim().is_empty()).count();
        let mut labels: Vec<String> = vec![];
        if !src.is_ascii() {
            labels.push("non_ascii".into());
        }
        if nesting_depth(&src) > 50 {
            labels.push("depth>50".into());
        }
        {
            // `else` as the first token of a block at top level
            let mut prev_blank = true;
            for line in src.lines() {
                let first = line.split_whitespace().next().unwrap_or("");
                if prev_blank && first.eq_ignore_ascii_case("else") {
                    labels.push("else_at_block_start".into());
                    break;
                }
                prev_blank = first.is_empty();
            }
        }
        let parse = |src: &str| {
            parse_rrss(src, Some(parse_fuel_for(src))).map(|r| match r {
                Ok(p) => Ok(format!("{:?}", p)),
                Err(e) => Err(e),
            })
        };
        // A long text without nesting must not need more stack than a short one: it is parsed on a thread with the 2 MiB
        // a spawned thread has by default (the shard's own stack is 1 GiB, for the deep chains).  Running out of it kills
        // the process; the driver's post-mortem then names the case.
        let r = if src.len() > 65_536 && nesting_depth(&src) <= 50 {
            labels.push("long_flat_text_on_2MiB_stack".into());
            // ... and by the real tool (`rrss parse`), which in the dev profile is a build without any optimisation
            match super::c20::tool_dies_parsing(&src) {
                Ok(Some(how)) => {
                    return Outcome::fail(format!(
                        "`rrss parse` {} on a text of {} bytes without any nesting (first 200 bytes: {:?})",
                        how,
                        src.len(),
                        src.chars().take(200).collect::<String>()
                    ))
                }
                Ok(None) => labels.push("long_flat_text_through_the_tool".into()),
                Err(why) => labels.push(format!("tool_leg_skipped:{}", why)),
            }
            let s2 = src.clone();
            std::thread::Builder::new().stack_size(2 << 20).spawn(move || parse(&s2)).expect("spawn").join().expect("flat-text thread")
        } else {
            parse(&src)
        };
        match r {
            Caught::Panic(m) => Outcome::fail(format!("parse panicked: {}", m)),
            Caught::Budget(b) => Outcome::fail(format!("parsing does not terminate within the fuel bound ({})", b)),
            Caught::Done(Ok(tree)) => {
                labels.push("ok".into());
                let mut o = Outcome::pass().nt(ntoks >= 3);
                o.digest = fnv_str(&tree);
                o.labels = labels;
                o
            }
            Caught::Done(Err(e)) => {
                labels.push(format!("err:{}", e.code));
                if e.text.is_empty() || !e.text.starts_with("Parse error (line ") {
                    return Outcome::fail(format!("parse error renders as {:?}", e.text));
                }
                let mut o = Outcome::pass().nt(ntoks >= 3);
                o.digest = fnv_str(&e.text) ^ fnv_str(&e.debug);
                o.labels = labels;
                o
            }
        }
    }
    fn sample(&self, c: &TextCase) -> Value {
        json!({ "src": c.src })
    }
    fn key(&self, c: &TextCase) -> u64 {
        fnv_str(&c.src)
    }
    fn expected_labels(&self) -> Vec<String> {
        let mut v: Vec<String> = ["ok", "non_ascii", "depth>50", "else_at_block_start", "long_flat_text_on_2MiB_stack"].iter().map(|s| s.to_string()).collect();
        for code in [
            "MissingIDAfterCommonPrefix",
            "MutationOperandMustBeIdentifier",
            "ExpectedPrimaryExpression",
            "ExpectedIdentifier",
            "ExpectedText",
            "ExpectedToken",
            "ExpectedOneOfTokens",
            "ExpectedPoeticNumberLiteral",
            "ExpectedSpaceAfterSays",
            "UnexpectedToken",
            "UnexpectedEndOfTokens",
            "PoeticLiteralEndingWithHyphen",
            "PoeticLiteralStartingWithHyphen",
        ] {
            v.push(format!("err:{}", code));
        }
        v
    }
}
