//! Shared text-level case type and generators (C01, C12, C13 legs).

use engine_core::gen::soup;
use engine_core::tape::Tape;
use serde::{Deserialize, Serialize};

#[derive(Clone, Debug, Serialize, Deserialize)]
pub struct TextCase {
    pub src: String,
}

pub fn snippet(t: &mut Tape) -> &'static str {
    let s = engine_core::snippets();
    &s[t.pick(s.len())]
}

/// token soup / mutated snippets / deep chains
pub fn gen_text(t: &mut Tape, lexy: bool, max_depth: usize) -> String {
    match t.weighted(&[50, 22, 12, 8, 8]) {
        0 => soup::soup(t, 40, lexy),
        1 => {
            let a = snippet(t);
            let b = snippet(t);
            soup::mutate(a, t, b)
        }
        2 => {
            // two snippets glued with soup
            let a = snippet(t).to_string();
            let mid = soup::soup(t, 6, lexy);
            let b = snippet(t);
            format!("{}{}{}", a, mid, b)
        }
        3 => soup::deep(t, max_depth),
        _ => {
            let a = soup::soup(t, 12, true);
            let b = snippet(t);
            soup::mutate(&format!("{}\n{}", a, b), t, &a)
        }
    }
}
