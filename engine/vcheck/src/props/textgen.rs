//! Shared text-level case type and generators (C01, C12, C13 legs).

use engine_core::gen::soup;
use engine_core::tape::Tape;
use serde::{Deserialize, Serialize};

#[derive(Clone, Debug, Serialize, Deserialize)]
pub struct TextCase {
    pub src: String,
}

pub fn snippet(t: &mut Tape) -> &'static str {
    let s = engine_core::snippets();
    &s[t.pick(s.len())]
}

/// token soup / mutated snippets / deep chains
pub fn gen_text(t: &mut Tape, lexy: bool, max_depth: usize) -> String {
    if t.chance(1, 3000) {
        // one token with very many line breaks inside (more than 8 or 16 bits can count), and tokens after it whose
        // positions depend on the count
        let n = *t.choose(&[255usize, 256, 257, 1000, 65_535, 65_536, 65_537, 66_000]);
        let body = "\n".repeat(n);
        let tail = soup::soup(t, 5, true);
        if t.chance(1, 3) {
            // one line of more than 64 KiB, a multi-line token opening at its far end and closing at a small column
            let line = "say hello ".repeat(6_600 + t.pick(300));
            return match t.pick(3) {
                0 => format!("{}\"a\nb\" y\n{}", line, tail),
                1 => format!("{}(c\n\nd)'s y {}", line, tail),
                _ => format!("{}\"é\n\" {}", line, tail),
            };
        }
        return match t.pick(4) {
            0 => format!("say 1 ({}) {}\nsay 2 +", body, tail),
            1 => format!("say \"{}\" {}\nsay 2 +", body, tail),
            2 => format!("x is 5\n({}", body),
            _ => format!("(a{}b)'s {}\nput into", body, tail),
        };
    }
    match t.weighted(&[50, 22, 12, 8, 8]) {
        0 => soup::soup(t, 40, lexy),
        1 => {
            let a = snippet(t);
            let b = snippet(t);
            soup::mutate(a, t, b)
        }
        2 => {
            // two snippets glued with soup
            let a = snippet(t).to_string();
            let mid = soup::soup(t, 6, lexy);
            let b = snippet(t);
            format!("{}{}{}", a, mid, b)
        }
        3 => soup::deep(t, max_depth),
        _ => {
            let a = soup::soup(t, 12, true);
            let b = snippet(t);
            soup::mutate(&format!("{}\n{}", a, b), t, &a)
        }
    }
}
