//! C12 — tokens carry their exact spelling and true source position.
//! Oracle: validity predicate computed from the source text alone.

use super::textgen::{gen_text, TextCase};
use crate::harness::{Outcome, Prop, Tier};
use crate::run::{fnv_str, guarded, Caught};
use engine_core::kw::{self, Kw};
use engine_core::tape::Tape;
use rrss::frontend::lexer::{Lexer, TokenType};
use serde_json::{json, Value};

pub struct C12;

const TOKEN_START_PUNCT: &str = ".,&+-*/\"(_<>";

fn gap_ok(c: char) -> bool {
    (c.is_whitespace() && c != '\n') || c == '\'' || (c.is_ascii_punctuation() && !TOKEN_START_PUNCT.contains(c))
}

fn kw_debug_name(k: Kw) -> String {
    match k {
        Kw::CommonPrefix => "CommonVariablePrefix".to_string(),
        k => format!("{:?}", k),
    }
}

#[derive(Debug)]
pub struct Tok {
    pub id: String,
    pub start: usize,
    pub end: usize,
    pub range: ((u32, u32), (u32, u32)),
}

/// line (1-based) and byte column of byte offset `off`
pub fn line_col(src: &str, off: usize) -> (u32, u32) {
    let before = &src.as_bytes()[..off];
    let line = 1 + before.iter().filter(|b| **b == b'\n').count() as u32;
    let ls = before.iter().rposition(|b| *b == b'\n').map_or(0, |p| p + 1);
    (line, (off - ls) as u32)
}

pub fn check_tokens(src: &str) -> Result<(Vec<Tok>, Vec<&'static str>), String> {
    let mut labels: Vec<&'static str> = vec![];
    let base = src.as_ptr() as usize;
    let mut toks: Vec<Tok> = vec![];
    let mut prev_end = 0usize;
    let mut n = 0usize;
    for tok in Lexer::new(src) {
        n += 1;
        if n > 4 * src.len() + 16 {
            return Err("lexer produced more tokens than the text can hold".into());
        }
        let p = tok.spelling.as_ptr() as usize;
        let len = tok.spelling.len();
        if p < base || p + len > base + src.len() {
            return Err(format!("token #{} {:?} is not a slice of the source", n, tok.id));
        }
        let s = p - base;
        let e = s + len;
        if len == 0 {
            return Err(format!("token #{} {:?} at byte {} is empty", n, tok.id, s));
        }
        if s < prev_end {
            return Err(format!(
                "token #{} {:?} [{}..{}) overlaps the previous token ending at {}",
                n, tok.id, s, e, prev_end
            ));
        }
        // everything between tokens is ignorable
        if let Some(c) = src[prev_end..s].chars().find(|c| !gap_ok(*c)) {
            return Err(format!("non-ignorable {:?} dropped between tokens (bytes {}..{})", c, prev_end, s));
        }
        let sp = tok.spelling;
        let idname = format!("{:?}", tok.id);
        let idname = idname.split('(').next().unwrap().to_string();
        // payloads and classes
        match tok.id {
            TokenType::StringLiteral(p) => {
                if !(sp.len() >= 2 && sp.starts_with('"') && sp.ends_with('"') && &sp[1..sp.len() - 1] == p) {
                    return Err(format!("string literal payload {:?} does not match spelling {:?}", p, sp));
                }
                if sp[1..sp.len() - 1].contains('"') {
                    return Err(format!("string literal {:?} contains a quote", sp));
                }
            }
            TokenType::Comment(p) => {
                if !(sp.len() >= 2 && sp.starts_with('(') && sp.ends_with(')') && &sp[1..sp.len() - 1] == p) {
                    return Err(format!("comment payload {:?} does not match spelling {:?}", p, sp));
                }
                if sp[1..sp.len() - 1].contains(')') {
                    return Err(format!("comment {:?} contains a closing parenthesis", sp));
                }
            }
            TokenType::Number(v) => match sp.parse::<f64>() {
                Ok(x) if x.to_bits() == v.to_bits() => {}
                other => return Err(format!("number token {:?} has value {} but its spelling parses to {:?}", sp, v, other)),
            },
            TokenType::Newline => {
                if sp != "\n" {
                    return Err(format!("newline token spelled {:?}", sp));
                }
            }
            TokenType::Error(_) => {
                if s > 0 {
                    labels.push("error_token_at_nonzero_offset");
                }
            }
            TokenType::Word => {
                if kw::lookup(sp).is_some() {
                    return Err(format!("keyword {:?} lexed as a plain word", sp));
                }
                if !sp.chars().all(|c| c.is_alphabetic() || c == '\'') {
                    return Err(format!("word token {:?} contains non-alphabetic characters", sp));
                }
            }
            _ => {
                let expect: Option<&str> = match sp {
                    "+" => Some("Plus"),
                    "-" => Some("Minus"),
                    "*" => Some("Multiply"),
                    "/" => Some("Divide"),
                    "<" => Some("Less"),
                    "<=" => Some("LessEq"),
                    ">" => Some("Greater"),
                    ">=" => Some("GreaterEq"),
                    "," => Some("Comma"),
                    "." => Some("Dot"),
                    "&" => Some("Ampersand"),
                    "'n'" => Some("ApostropheNApostrophe"),
                    "'s" | "'S" => Some("ApostropheS"),
                    _ if sp.eq_ignore_ascii_case("'re") => Some("ApostropheRE"),
                    _ => None,
                };
                match expect {
                    Some(x) => {
                        if x != idname {
                            return Err(format!("token {:?} has class {} (expected {})", sp, idname, x));
                        }
                    }
                    None => match kw::lookup(sp) {
                        Some(k) if kw_debug_name(k) == idname => {}
                        other => {
                            return Err(format!("token {:?} has class {} but the alias table says {:?}", sp, idname, other))
                        }
                    },
                }
            }
        }
        // newlines only inside delimited tokens
        let multiline_ok = matches!(tok.id, TokenType::StringLiteral(_) | TokenType::Comment(_) | TokenType::Newline)
            || (matches!(tok.id, TokenType::Error(_)) && (sp.starts_with('"') || sp.starts_with('(')));
        if sp.contains('\n') {
            if !multiline_ok {
                return Err(format!("token {:?} ({}) swallows a line break", sp, idname));
            }
            if sp != "\n" {
                labels.push("multiline_token");
            }
        }
        if idname.starts_with("Apostrophe") && idname != "ApostropheNApostrophe" {
            labels.push("suffix_token");
            if let Some(prev) = toks.last() {
                if src[prev.start..prev.end].contains('\n') && prev.end == s {
                    labels.push("suffix_after_multiline_token");
                }
            }
        }
        if !sp.is_ascii() {
            labels.push("multibyte");
        }
        // positions
        let want_start = line_col(src, s);
        let got_start = (tok.range.start().line, tok.range.start().column);
        let got_end = (tok.range.end().line, tok.range.end().column);
        if got_start != want_start {
            return Err(format!(
                "token {:?} at byte {}: reported start {:?}, true line/column {:?}",
                sp, s, got_start, want_start
            ));
        }
        if !sp.ends_with('\n') {
            let last_char_start = s + sp.char_indices().last().map(|(i, _)| i).unwrap_or(0);
            let (l, _) = line_col(src, last_char_start);
            let ls = src.as_bytes()[..last_char_start].iter().rposition(|b| *b == b'\n').map_or(0, |p| p + 1);
            let want_end = (l, (e - ls) as u32);
            if got_end != want_end {
                return Err(format!(
                    "token {:?} at bytes {}..{}: reported end {:?}, expected {:?}",
                    sp, s, e, got_end, want_end
                ));
            }
        }
        toks.push(Tok { id: idname, start: s, end: e, range: (got_start, got_end) });
        prev_end = e;
    }
    if let Some(c) = src[prev_end..].chars().find(|c| !gap_ok(*c)) {
        return Err(format!("non-ignorable {:?} dropped after the last token (bytes {}..)", c, prev_end));
    }
    if src.contains('\r') {
        labels.push("cr");
    }
    if !toks.is_empty() && prev_end == src.len() && !src.ends_with('\n') {
        labels.push("token_at_eof");
    }
    // the comment-skipping view (what the parser reads) is the plain token stream without its comments: same tokens,
    // same order, same places
    {
        let plain: Vec<(String, usize, usize)> = Lexer::new(src)
            .filter(|t| !t.is_comment())
            .map(|t| (format!("{:?}", t.id), t.spelling.as_ptr() as usize - base, t.spelling.len()))
            .collect();
        let skipping: Vec<(String, usize, usize)> =
            Lexer::new(src).skip_comments().take(4 * src.len() + 16).map(|t| (format!("{:?}", t.id), t.spelling.as_ptr() as usize - base, t.spelling.len())).collect();
        if plain != skipping {
            let k = plain.iter().zip(skipping.iter()).position(|(a, b)| a != b).unwrap_or(plain.len().min(skipping.len()));
            return Err(format!(
                "the comment-skipping lexer is not the token stream without its comments: token #{} is {:?} there and {:?} in the plain stream ({} vs {} tokens)",
                k,
                skipping.get(k),
                plain.get(k),
                skipping.len(),
                plain.len()
            ));
        }
    }
    Ok((toks, labels))
}

impl Prop for C12 {
    type Case = TextCase;
    fn id(&self) -> &'static str {
        "C12"
    }
    fn rule(&self) -> String {
        "texts: token soup over a weighted fragment alphabet (keywords in any case, words with apostrophes/suffixes, \
         malformed numbers/identifiers, all punctuation, quoted and parenthesised runs incl. multi-line/unterminated, CR/LF, \
         exotic blanks, non-ASCII letters/digits, control characters), token-level mutations of the repository's test programs, deep chains. \
         non-trivial = >= 3 tokens and one of {multi-line token, suffix token, multi-byte char, CR, token at EOF}; distinct by text"
            .into()
    }
    fn assumptions(&self) -> Vec<String> {
        vec![
            "the predicate is computed from the source alone: slices by pointer arithmetic, gaps by the ignorable-character rule of the statement".into(),
            "end positions of tokens that end in a line break are not checked (excepted by the statement)".into(),
        ]
    }
    fn tape_len(&self, _t: Tier) -> usize {
        160
    }
    fn cases(&self, t: Tier) -> usize {
        t.pick(1_500_000, 40_000_000)
    }
    fn generate(&self, t: &mut Tape) -> TextCase {
        TextCase { src: gen_text(t, true, 60) }
    }
    fn fixed_cases(&self, _t: Tier) -> (Vec<TextCase>, bool) {
        (engine_core::snippets().iter().map(|s| TextCase { src: s.clone() }).collect(), false)
    }
    fn check(&self, c: &TextCase) -> Outcome {
        let src: Box<str> = c.src.clone().into_boxed_str();
        let r = guarded(|| {
            rrss::verif_hooks::set_parse_fuel(crate::run::parse_fuel_for(&src));
            check_tokens(&src)
        });
        match r {
            Caught::Panic(m) => Outcome::fail(format!("lexer panicked: {}", m)),
            Caught::Budget(b) => Outcome::fail(format!("lexing does not terminate within the fuel bound ({})", b)),
            Caught::Done(Err(m)) => Outcome::fail(m),
            Caught::Done(Ok((toks, labels))) => {
                let nt = toks.len() >= 3 && !labels.is_empty();
                let mut d = String::new();
                for t in &toks {
                    d.push_str(&format!("{}:{}-{}:{:?};", t.id, t.start, t.end, t.range));
                }
                let mut o = Outcome::pass().nt(nt);
                o.digest = fnv_str(&d);
                let mut ls: Vec<&str> = labels;
                ls.sort();
                ls.dedup();
                o.labels = ls.into_iter().map(String::from).collect();
                o
            }
        }
    }
    fn sample(&self, c: &TextCase) -> Value {
        json!({ "src": c.src })
    }
    fn key(&self, c: &TextCase) -> u64 {
        fnv_str(&c.src)
    }
    fn expected_labels(&self) -> Vec<String> {
        ["multiline_token", "suffix_token", "suffix_after_multiline_token", "multibyte", "cr", "token_at_eof", "error_token_at_nonzero_offset"]
            .iter()
            .map(|s| s.to_string())
            .collect()
    }
}
