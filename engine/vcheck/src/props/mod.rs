use crate::harness::Config;

pub mod c01;
pub mod c02;
pub mod c03;
pub mod c04;
pub mod c05;
pub mod c06;
pub mod c07;
pub mod c08;
pub mod c09;
pub mod c10;
pub mod c11;
pub mod c12;
pub mod c13;
pub mod c14;
pub mod c15;
pub mod c16;
pub mod c17;
pub mod c18;
pub mod c19;
pub mod c20;
pub mod textgen;

pub fn dispatch(id: &str, cfg: Config) -> i32 {
    match id {
        "C01" => {
            let rc = crate::run_prop(c01::C01, cfg);
            c20::cleanup();
            rc
        }
        "C02" => crate::run_prop(c02::C02, cfg),
        "C03" => crate::run_prop(c03::C03, cfg),
        "C04" => crate::run_prop(c04::C04, cfg),
        "C05" => crate::run_prop(c05::C05, cfg),
        "C06" => crate::run_prop(c06::C06, cfg),
        "C07" => crate::run_prop(c07::C07, cfg),
        "C08" => crate::run_prop(c08::C08, cfg),
        "C09" => crate::run_prop(c09::C09, cfg),
        "C10" => crate::run_prop(c10::C10, cfg),
        "C11" => crate::run_prop(c11::C11, cfg),
        "C12" => crate::run_prop(c12::C12, cfg),
        "C13" => crate::run_prop(c13::C13, cfg),
        "C14" => crate::run_prop(c14::C14, cfg),
        "C15" => crate::run_prop(c15::C15, cfg),
        "C16" => crate::run_prop(c16::C16, cfg),
        "C17" => crate::run_prop(c17::C17, cfg),
        "C18" => crate::run_prop(c18::C18, cfg),
        "C19" => crate::run_prop(c19::C19, cfg),
        "C20" => {
            let rc = crate::run_prop(c20::C20, cfg);
            c20::cleanup();
            rc
        }
        _ => {
            eprintln!("unknown property {}", id);
            2
        }
    }
}
