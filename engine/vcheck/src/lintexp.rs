//! Independent recomputation of what the two lint passes must report.

use crate::walk::{Ev, Walker};
use engine_core::ast::*;
use engine_core::gen::consts::constant_value;

#[derive(Clone, Debug, PartialEq)]
pub enum Reported {
    Number(f64),
    Str(String),
}

#[derive(Clone, Debug)]
pub struct ExpectedBoring {
    /// pre-order index of the statement
    pub stmt: usize,
    pub value: Reported,
    pub target: String,
    pub rock: bool,
    pub plain_variable: Option<Name>,
}

fn lhs_text(l: &Lhs) -> (String, Option<Name>) {
    match l {
        Lhs::Ident(Ident::Name(n)) => (n.text(), Some(n.clone())),
        Lhs::Ident(Ident::Pronoun) => ("<pronoun>".into(), None),
        Lhs::Subscript(..) => ("<expression>".into(), None),
    }
}

fn primary_text(p: &Primary) -> (String, Option<Name>) {
    match p {
        Primary::Ident(Ident::Name(n)) => (n.text(), Some(n.clone())),
        Primary::Ident(Ident::Pronoun) => ("<pronoun>".into(), None),
        Primary::Lit(_) => ("<literal>".into(), None),
        _ => ("<expression>".into(), None),
    }
}

fn classify(e: &Expr, strings: bool) -> Option<Reported> {
    if let Some(v) = constant_value(e) {
        return Some(Reported::Number(v));
    }
    if strings {
        if let Expr::Primary(Primary::Lit(Lit::Str(s))) = e {
            return Some(Reported::Str(s.clone()));
        }
    }
    None
}

/// reported <=> not compound and (right-hand side is a constant numeric expression, or a plain string literal [not for rock])
pub fn expected_boring(p: &Program) -> Vec<ExpectedBoring> {
    fn blk(b: &[Stmt], idx: &mut usize, out: &mut Vec<ExpectedBoring>) {
        for s in b {
            let me = *idx;
            *idx += 1;
            match s {
                Stmt::Assign { dest, value, op: None } if value.len() == 1 => {
                    if let Some(v) = classify(&value[0], true) {
                        let (target, plain) = lhs_text(dest);
                        out.push(ExpectedBoring { stmt: me, value: v, target, rock: false, plain_variable: plain });
                    }
                }
                Stmt::PoeticNum { dest, rhs: PoeticRhs::Expr(e) } => {
                    if let Some(v) = classify(e, true) {
                        let (target, plain) = lhs_text(dest);
                        out.push(ExpectedBoring { stmt: me, value: v, target, rock: false, plain_variable: plain });
                    }
                }
                Stmt::Push { array, value: Some(PushRhs::List(es)) } if es.len() == 1 => {
                    if let Some(v) = classify(&es[0], false) {
                        let (target, plain) = primary_text(array);
                        out.push(ExpectedBoring { stmt: me, value: v, target, rock: true, plain_variable: plain });
                    }
                }
                Stmt::If { then, els, .. } => {
                    blk(then, idx, out);
                    if let Some(e) = els {
                        blk(e, idx, out);
                    }
                }
                Stmt::While { body, .. } | Stmt::Until { body, .. } | Stmt::Function { body, .. } => blk(body, idx, out),
                _ => {}
            }
        }
    }
    let mut out = vec![];
    let mut idx = 0;
    for b in &p.blocks {
        blk(b, &mut idx, &mut out);
    }
    out
}

pub fn number_text(v: f64) -> String {
    format!("{}", v)
}

pub fn issue_text(value: &Reported, target: &str) -> String {
    let v = match value {
        Reported::Number(n) => number_text(*n),
        Reported::Str(s) => format!("\"{}\"", s),
    };
    format!("Assignment of literal value `{}` into `{}` isn't very rock'n'roll", v, target)
}

/// the decimal numeral spelled by the star-words of a suggestion payload (after ` is ` / ` like `)
pub fn stars_numeral(stars: &str) -> Option<String> {
    let mut out = String::new();
    let mut run = 0usize;
    let mut flush = |run: &mut usize, out: &mut String| {
        if *run > 0 {
            out.push(char::from(b'0' + (*run % 10) as u8));
            *run = 0;
        }
    };
    for c in stars.chars() {
        match c {
            '*' => run += 1,
            ' ' => flush(&mut run, &mut out),
            '.' => {
                flush(&mut run, &mut out);
                out.push('.');
            }
            _ => return None,
        }
    }
    flush(&mut run, &mut out);
    Some(out)
}

#[derive(Clone, Debug, PartialEq)]
pub struct ExpectedRepeat {
    pub line: u32,
    pub text: String,
}

/// a mention is reported iff it spells the same name as the previous mention and is not the name of a called function
pub fn expected_repeats(tree: &rrss::frontend::ast::Program) -> Vec<ExpectedRepeat> {
    let mut w = Walker::new(false);
    w.program(tree);
    let mut last: Option<String> = None;
    let mut out = vec![];
    for e in &w.out {
        if let Ev::Name { text, line, callee, exact, .. } = e {
            let is_match = !*callee && last.as_deref() == Some(exact.as_str());
            if is_match {
                out.push(ExpectedRepeat { line: *line, text: text.clone() });
            } else {
                last = Some(exact.clone());
            }
        }
    }
    out
}
