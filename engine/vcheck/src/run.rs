//! Guarded in-process runners for rrss entry points: every call happens inside
//! `catch_unwind`, with the fuel / allocation hooks set, on the caller's
//! (big-stack) thread.

use engine_core::ast as m;
use rrss::verif_hooks::{self, BudgetExhausted};
use std::cell::RefCell;
use std::io::{Read, Write};
use std::panic::{catch_unwind, AssertUnwindSafe};
use std::sync::{Arc, Mutex};

thread_local! {
    static LAST_PANIC: RefCell<Option<String>> = RefCell::new(None);
    /// how often a guarded call on this thread ended by unwinding (panic or the fuel / allocation hooks)
    static UNWINDS: std::cell::Cell<u64> = std::cell::Cell::new(0);
}

/// Number of guarded calls on this thread that ended by unwinding.  Unwinding through rrss (which is not written to
/// be unwind-safe, and need not be: the fuel hooks are this harness's own) may leave per-thread state behind, so the
/// harness moves a shard to a fresh thread after every unwind; see `harness::run`.
pub fn unwinds() -> u64 {
    UNWINDS.with(|u| u.get())
}

/// Install a quiet panic hook that records message and location per thread.
pub fn install_panic_hook() {
    std::panic::set_hook(Box::new(|info| {
        let msg = if let Some(s) = info.payload().downcast_ref::<&str>() {
            s.to_string()
        } else if let Some(s) = info.payload().downcast_ref::<String>() {
            s.clone()
        } else {
            "<non-string panic payload>".to_string()
        };
        let loc = info.location().map(|l| format!("{}:{}", l.file(), l.line())).unwrap_or_default();
        LAST_PANIC.with(|p| *p.borrow_mut() = Some(format!("{} @ {}", msg, loc)));
    }));
}

#[derive(Debug, Clone)]
pub enum Caught<T> {
    Done(T),
    Panic(String),
    Budget(String),
}

impl<T> Caught<T> {
    pub fn map<U>(self, f: impl FnOnce(T) -> U) -> Caught<U> {
        match self {
            Caught::Done(t) => Caught::Done(f(t)),
            Caught::Panic(s) => Caught::Panic(s),
            Caught::Budget(s) => Caught::Budget(s),
        }
    }
}

pub fn guarded<T>(f: impl FnOnce() -> T) -> Caught<T> {
    LAST_PANIC.with(|p| *p.borrow_mut() = None);
    let r = catch_unwind(AssertUnwindSafe(f));
    verif_hooks::reset();
    match r {
        Ok(t) => Caught::Done(t),
        Err(payload) => {
            UNWINDS.with(|u| u.set(u.get() + 1));
            if let Some(b) = payload.downcast_ref::<BudgetExhausted>() {
                Caught::Budget(format!("{:?}", b))
            } else {
                let msg = LAST_PANIC.with(|p| p.borrow_mut().take()).unwrap_or_else(|| {
                    if let Some(s) = payload.downcast_ref::<&str>() {
                        s.to_string()
                    } else if let Some(s) = payload.downcast_ref::<String>() {
                        s.clone()
                    } else {
                        "<unknown panic>".into()
                    }
                });
                Caught::Panic(msg)
            }
        }
    }
}

// ---------------------------------------------------------------- parsing

#[derive(Debug, Clone)]
pub struct ParseErr {
    pub text: String,
    pub debug: String,
    pub line: u32,
    pub code: String,
    pub loc_is_token: bool,
}

pub fn parse_fuel_for(src: &str) -> u64 {
    500 * (src.len() as u64 + 10)
}

/// Parse with a fuel bound; returns rrss's own tree (owned) or an owned rendering of the error.
pub fn parse_rrss(src: &str, fuel: Option<u64>) -> Caught<Result<rrss::frontend::ast::Program, ParseErr>> {
    guarded(|| {
        if let Some(f) = fuel {
            verif_hooks::set_parse_fuel(f);
        }
        match rrss::frontend::parser::parse(src) {
            Ok(p) => Ok(p),
            Err(e) => {
                use rrss::frontend::parser::ParseErrorLocation;
                let (line, loc_is_token) = match &e.loc {
                    ParseErrorLocation::Token(t) => (t.range.start().line, true),
                    ParseErrorLocation::Line(l) => (*l, false),
                };
                let code = format!("{:?}", e.code);
                let code = code.split(|c: char| !c.is_alphanumeric()).next().unwrap_or("").to_string();
                Err(ParseErr { text: e.to_string(), debug: format!("{:?}", e), line, code, loc_is_token })
            }
        }
    })
}

pub fn parse_mini(src: &str) -> Caught<Result<m::Program, ParseErr>> {
    parse_rrss(src, Some(parse_fuel_for(src))).map(|r| r.map(|p| crate::adapt::program(&p)))
}

// ---------------------------------------------------------------- execution

#[derive(Clone, Default)]
pub struct SharedBuf(pub Arc<Mutex<Vec<u8>>>);

impl Write for SharedBuf {
    fn write(&mut self, buf: &[u8]) -> std::io::Result<usize> {
        self.0.lock().unwrap().extend_from_slice(buf);
        Ok(buf.len())
    }
    fn flush(&mut self) -> std::io::Result<()> {
        Ok(())
    }
}

#[derive(Debug, Clone, PartialEq)]
pub struct ExecOut {
    pub stdout: Vec<u8>,
    /// None = Ok(()); Some((variant path, message))
    pub err: Option<(String, String)>,
}

impl ExecOut {
    pub fn ok(&self) -> bool {
        self.err.is_none()
    }
    pub fn stdout_str(&self) -> String {
        String::from_utf8_lossy(&self.stdout).into_owned()
    }
}

pub fn error_variant(e: &rrss::exec::RuntimeError) -> String {
    // "ValError(InvalidKey(..." -> "ValError::InvalidKey"
    let d = format!("{:?}", e);
    let mut parts = Vec::new();
    let mut cur = String::new();
    for c in d.chars() {
        if c.is_alphanumeric() || c == '_' {
            cur.push(c);
        } else {
            if !cur.is_empty() {
                parts.push(std::mem::take(&mut cur));
            }
            if c != '(' || parts.len() >= 3 {
                break;
            }
        }
    }
    if !cur.is_empty() {
        parts.push(cur);
    }
    // keep enum-looking identifiers only
    parts.retain(|p| p.chars().next().map_or(false, |c| c.is_uppercase()));
    // RuntimeError variant, its inner variant, and one more level only for symbol-table errors
    let depth = if parts.get(1).map(|s| s.as_str()) == Some("SymTableError") { 3 } else { 2 };
    parts.truncate(depth);
    parts.join("::")
}

#[derive(Clone, Copy, Debug)]
pub struct Limits {
    pub exec_fuel: Option<u64>,
    pub alloc_cap: Option<usize>,
}

impl Limits {
    pub const NONE: Limits = Limits { exec_fuel: None, alloc_cap: None };
}

pub fn exec_with<R: Read, W: Write>(
    program: &rrss::frontend::ast::Program,
    input: R,
    output: W,
    lim: Limits,
) -> Caught<Option<(String, String)>> {
    guarded(|| {
        if let Some(f) = lim.exec_fuel {
            verif_hooks::set_exec_fuel(f);
        }
        if let Some(a) = lim.alloc_cap {
            verif_hooks::set_alloc_cap(a);
        }
        match rrss::exec::exec_using(input, output, program) {
            Ok(()) => None,
            Err(e) => Some((error_variant(&e), e.to_string())),
        }
    })
}

/// Run a parsed program on `stdin`; stdout is kept even when the run panics.
pub fn exec_rrss(program: &rrss::frontend::ast::Program, stdin: &[u8], lim: Limits) -> (Caught<()>, ExecOut) {
    let buf = SharedBuf::default();
    let r = exec_with(program, stdin, buf.clone(), lim);
    let stdout = buf.0.lock().unwrap().clone();
    match r {
        Caught::Done(err) => (Caught::Done(()), ExecOut { stdout, err }),
        Caught::Panic(s) => (Caught::Panic(s), ExecOut { stdout, err: None }),
        Caught::Budget(s) => (Caught::Budget(s), ExecOut { stdout, err: None }),
    }
}

pub fn exec_burnt() -> u64 {
    verif_hooks::exec_burnt()
}

pub fn fnv(bytes: &[u8]) -> u64 {
    let mut h: u64 = 0xcbf29ce484222325;
    for b in bytes {
        h ^= *b as u64;
        h = h.wrapping_mul(0x100000001b3);
    }
    h
}

pub fn fnv_str(s: &str) -> u64 {
    fnv(s.as_bytes())
}
