//! Generic property runner: known-finding witnesses, regression tier, fixed
//! (enumerated) cases, tape-generated cases on 16 big-stack shards with proptest
//! generation + shrinking, replay files, cross-profile digests and evidence.

use engine_core::tape::Tape;
use proptest::collection::vec as pvec;
use proptest::prelude::*;
use proptest::strategy::ValueTree;
use proptest::test_runner::{Config as PtConfig, RngAlgorithm, TestRng, TestRunner};
use serde::de::DeserializeOwned;
use serde::Serialize;
use serde_json::{json, Value};
use std::collections::{BTreeMap, HashSet};
use std::path::{Path, PathBuf};
use std::sync::atomic::{AtomicBool, AtomicU64, Ordering};
use std::sync::{Arc, Mutex};
use std::time::{Duration, Instant};

pub const VERIF_ROOT: &str = "/verif";

/// set once at start-up: checks that scale their per-case work with the tier read it
pub static THOROUGH: AtomicBool = AtomicBool::new(false);

#[derive(Copy, Clone, Debug, PartialEq, Eq)]
pub enum Tier {
    Quick,
    Thorough,
}

impl Tier {
    pub fn name(self) -> &'static str {
        match self {
            Tier::Quick => "quick",
            Tier::Thorough => "thorough",
        }
    }
    pub fn pick<T>(self, q: T, t: T) -> T {
        match self {
            Tier::Quick => q,
            Tier::Thorough => t,
        }
    }
}

#[derive(Clone, Debug)]
pub enum Verdict {
    Pass,
    Fail(String),
    Discard(String),
}

#[derive(Clone, Debug)]
pub struct Outcome {
    pub verdict: Verdict,
    pub labels: Vec<String>,
    pub nontrivial: bool,
    /// digest of everything observable, compared between build profiles
    pub digest: u64,
    /// how many executions of rrss code this case performed
    pub evals: u32,
}

impl Outcome {
    pub fn pass() -> Self {
        Outcome { verdict: Verdict::Pass, labels: vec![], nontrivial: false, digest: 0, evals: 1 }
    }
    pub fn fail(msg: impl Into<String>) -> Self {
        Outcome { verdict: Verdict::Fail(msg.into()), labels: vec![], nontrivial: true, digest: 0, evals: 1 }
    }
    pub fn discard(why: impl Into<String>) -> Self {
        Outcome { verdict: Verdict::Discard(why.into()), labels: vec![], nontrivial: false, digest: 0, evals: 0 }
    }
    pub fn label(mut self, l: impl Into<String>) -> Self {
        self.labels.push(l.into());
        self
    }
    pub fn nt(mut self, b: bool) -> Self {
        self.nontrivial = b;
        self
    }
    pub fn is_fail(&self) -> bool {
        matches!(self.verdict, Verdict::Fail(_))
    }
}

pub struct Config {
    pub tier: Tier,
    pub seed: u64,
    pub profile: String,
    pub replay: Option<PathBuf>,
    pub digest_out: Option<PathBuf>,
    pub digest_in: Option<PathBuf>,
    pub part_in: Option<PathBuf>,
    pub evidence_out: PathBuf,
    pub threads: usize,
    pub cases_override: Option<usize>,
    pub dump: usize,
    pub strict_known: bool,
}

pub trait Prop: Sync + Send {
    type Case: Clone + Serialize + DeserializeOwned + Send + Sync + 'static;
    fn id(&self) -> &'static str;
    fn rule(&self) -> String;
    fn assumptions(&self) -> Vec<String> {
        vec![]
    }
    fn tape_len(&self, tier: Tier) -> usize;
    fn cases(&self, tier: Tier) -> usize;
    fn generate(&self, tape: &mut Tape) -> Self::Case;
    /// enumerated / curated cases, run before the generated ones; `exhaustive` is reported when true
    fn fixed_cases(&self, _tier: Tier) -> (Vec<Self::Case>, bool) {
        (vec![], false)
    }
    fn check(&self, case: &Self::Case) -> Outcome;
    fn sample(&self, case: &Self::Case) -> Value {
        serde_json::to_value(case).unwrap_or(Value::Null)
    }
    fn key(&self, case: &Self::Case) -> u64 {
        crate::run::fnv(serde_json::to_string(case).unwrap_or_default().as_bytes())
    }
    /// labels that the evidence reports as "gap" when never reached
    fn expected_labels(&self) -> Vec<String> {
        vec![]
    }
    /// extra keys for the coverage object
    fn extra(&self) -> BTreeMap<String, Value> {
        BTreeMap::new()
    }
}

/// Post-mortem record for crashes that kill the whole process (SIGSEGV in a release build, abort, stack overflow):
/// every shard copies the tape of the case it is about to run into its slot of a shared, file-backed mapping
/// (a plain memcpy, no system call); when the process dies the driver reads the file, replays the last case of
/// every shard in a fresh process and reports the one that crashes.  File named by VCHECK_CRASHLOG; absent = off.
pub struct CrashLog {
    base: *mut u8,
}
unsafe impl Send for CrashLog {}
unsafe impl Sync for CrashLog {}

pub const CRASH_SLOT_WORDS: usize = 4096;
const CRASH_SLOT_BYTES: usize = 8 + 4 * CRASH_SLOT_WORDS;
const CRASH_SLOTS: usize = 64;

impl CrashLog {
    pub fn open() -> Option<CrashLog> {
        let path = std::env::var("VCHECK_CRASHLOG").ok()?;
        let f = std::fs::OpenOptions::new().read(true).write(true).create(true).truncate(true).open(&path).ok()?;
        f.set_len((CRASH_SLOT_BYTES * CRASH_SLOTS) as u64).ok()?;
        use std::os::unix::io::AsRawFd;
        let p = unsafe { libc::mmap(std::ptr::null_mut(), CRASH_SLOT_BYTES * CRASH_SLOTS, libc::PROT_READ | libc::PROT_WRITE, libc::MAP_SHARED, f.as_raw_fd(), 0) };
        if p == libc::MAP_FAILED {
            return None;
        }
        Some(CrashLog { base: p as *mut u8 })
    }
    /// kind 1 = generated case (tape), 2 = fixed case (index in words[0]), 0 = idle
    pub fn record(&self, slot: usize, kind: u32, words: &[u32]) {
        if slot >= CRASH_SLOTS {
            return;
        }
        let n = words.len().min(CRASH_SLOT_WORDS);
        unsafe {
            let p = self.base.add(slot * CRASH_SLOT_BYTES) as *mut u32;
            p.write_volatile(0);
            p.add(1).write_volatile(n as u32);
            std::ptr::copy_nonoverlapping(words.as_ptr(), p.add(2), n);
            p.write_volatile(kind);
        }
    }
}

#[derive(Default)]
struct Agg {
    evaluations: u64,
    cases: u64,
    generated: u64,
    fixed: u64,
    nontrivial: u64,
    distinct: HashSet<u64>,
    labels: BTreeMap<String, u64>,
    discards: BTreeMap<String, u64>,
    samples: Vec<Value>,
    digests: Vec<u64>,
}

impl Agg {
    fn add(&mut self, key: u64, o: &Outcome) {
        self.cases += 1;
        self.evaluations += o.evals as u64;
        if let Verdict::Discard(why) = &o.verdict {
            *self.discards.entry(why.clone()).or_default() += 1;
        }
        if o.nontrivial && !matches!(o.verdict, Verdict::Discard(_)) {
            self.nontrivial += 1;
            self.distinct.insert(key);
        }
        for l in &o.labels {
            *self.labels.entry(l.clone()).or_default() += 1;
        }
        self.digests.push(o.digest);
    }
    fn merge(&mut self, o: Agg) {
        self.evaluations += o.evaluations;
        self.cases += o.cases;
        self.generated += o.generated;
        self.fixed += o.fixed;
        self.nontrivial += o.nontrivial;
        self.distinct.extend(o.distinct);
        for (k, v) in o.labels {
            *self.labels.entry(k).or_default() += v;
        }
        for (k, v) in o.discards {
            *self.discards.entry(k).or_default() += v;
        }
        for s in o.samples {
            if self.samples.len() < 6 {
                self.samples.push(s);
            }
        }
        self.digests.extend(o.digests);
    }
}

struct Failure<C> {
    case: C,
    msg: String,
    origin: String,
}

fn shard_seed(seed: u64, shard: usize) -> [u8; 32] {
    let mut s = [0u8; 32];
    let mut x = seed ^ 0x9e3779b97f4a7c15u64.wrapping_mul(shard as u64 + 1);
    for chunk in s.chunks_mut(8) {
        // splitmix64
        x = x.wrapping_add(0x9e3779b97f4a7c15);
        let mut z = x;
        z = (z ^ (z >> 30)).wrapping_mul(0xbf58476d1ce4e5b9);
        z = (z ^ (z >> 27)).wrapping_mul(0x94d049bb133111eb);
        z ^= z >> 31;
        chunk.copy_from_slice(&z.to_le_bytes());
    }
    s
}

fn run_on_big_stack<T: Send + 'static>(f: impl FnOnce() -> T + Send + 'static) -> std::thread::JoinHandle<T> {
    std::thread::Builder::new().stack_size(1 << 30).spawn(f).expect("spawn")
}

fn save_replay<P: Prop>(p: &P, cfg: &Config, f: &Failure<P::Case>) -> PathBuf {
    let dir = Path::new(VERIF_ROOT).join("replays").join(p.id());
    let _ = std::fs::create_dir_all(&dir);
    let body = json!({
        "property": p.id(),
        "message": f.msg,
        "origin": f.origin,
        "seed": cfg.seed,
        "tier": cfg.tier.name(),
        "profile": cfg.profile,
        "sample": p.sample(&f.case),
        "case": serde_json::to_value(&f.case).unwrap_or(Value::Null),
    });
    let text = serde_json::to_string_pretty(&body).unwrap();
    let path = dir.join(format!("{:016x}.json", crate::run::fnv(text.as_bytes())));
    std::fs::write(&path, text).expect("write replay");
    path
}

pub fn load_case<P: Prop>(path: &Path) -> Result<P::Case, String> {
    let text = std::fs::read_to_string(path).map_err(|e| format!("{}: {}", path.display(), e))?;
    let v: Value = serde_json::from_str(&text).map_err(|e| format!("{}: {}", path.display(), e))?;
    let c = v.get("case").cloned().unwrap_or(v);
    serde_json::from_value(c).map_err(|e| format!("{}: {}", path.display(), e))
}

struct Known {
    id: String,
    status: String,
    what: String,
    signature: String,
    case: Value,
}

fn load_known(prop: &str) -> Vec<Known> {
    let path = Path::new(VERIF_ROOT).join("known_findings.json");
    let Ok(text) = std::fs::read_to_string(&path) else { return vec![] };
    let Ok(v) = serde_json::from_str::<Value>(&text) else {
        eprintln!("known_findings.json does not parse");
        std::process::exit(2);
    };
    let mut out = vec![];
    for e in v.get("findings").and_then(|f| f.as_array()).cloned().unwrap_or_default() {
        let witnesses = e.get("witnesses").and_then(|w| w.as_array()).cloned().unwrap_or_default();
        for w in witnesses {
            if w.get("property").and_then(|p| p.as_str()) != Some(prop) {
                continue;
            }
            out.push(Known {
                id: e.get("id").and_then(|x| x.as_str()).unwrap_or("?").to_string(),
                status: e.get("status").and_then(|x| x.as_str()).unwrap_or("known").to_string(),
                what: e.get("what").and_then(|x| x.as_str()).unwrap_or("").to_string(),
                signature: w.get("signature").and_then(|x| x.as_str()).unwrap_or("").to_string(),
                case: w.get("case").cloned().unwrap_or(Value::Null),
            });
        }
    }
    out
}

/// proptest shrinking on the tape, re-decoding and re-checking each candidate
fn shrink<P: Prop>(
    p: &P,
    tree: &mut impl ValueTree<Value = Vec<u32>>,
    first: (P::Case, String),
    budget: usize,
) -> (P::Case, String) {
    let mut best = first;
    let mut steps = 0usize;
    let deadline = Instant::now() + Duration::from_secs(120);
    let mut test = |t: &Vec<u32>| -> Option<(P::Case, String)> {
        let mut tape = Tape::new(t);
        let case = p.generate(&mut tape);
        match p.check(&case).verdict {
            Verdict::Fail(m) => Some((case, m)),
            _ => None,
        }
    };
    if !tree.simplify() {
        return best;
    }
    loop {
        steps += 1;
        if steps > budget || Instant::now() > deadline {
            break;
        }
        let cur = tree.current();
        if let Some(f) = test(&cur) {
            best = f;
            if !tree.simplify() {
                break;
            }
        } else if !tree.complicate() {
            break;
        }
    }
    best
}

pub fn run<P: Prop + 'static>(p: Arc<P>, cfg: Config) -> i32 {
    let start = Instant::now();
    THOROUGH.store(cfg.tier == Tier::Thorough, Ordering::Relaxed);
    crate::run::install_panic_hook();
    let id = p.id();

    // ---- replay mode
    if let Some(path) = &cfg.replay {
        let from_tape = std::fs::read_to_string(path).ok().and_then(|t| serde_json::from_str::<Value>(&t).ok()).and_then(|v| {
            let g = v.get("generated_from")?;
            if let Some(tape) = g.get("tape") {
                let words: Vec<u32> = serde_json::from_value(tape.clone()).ok()?;
                let mut t = Tape::new(&words);
                return Some(p.generate(&mut t));
            }
            let idx = g.get("fixed_case_index")?.as_u64()? as usize;
            p.fixed_cases(cfg.tier).0.into_iter().nth(idx)
        });
        let case = match from_tape.map(Ok).unwrap_or_else(|| load_case::<P>(path)) {
            Ok(c) => c,
            Err(e) => {
                eprintln!("cannot load replay: {}", e);
                return 2;
            }
        };
        let pp = p.clone();
        let c2 = case.clone();
        let o = run_on_big_stack(move || pp.check(&c2)).join().expect("replay thread");
        println!("replay {}: {:?}", path.display(), o.verdict);
        println!("sample: {}", serde_json::to_string_pretty(&p.sample(&case)).unwrap());
        return match o.verdict {
            Verdict::Fail(m) => {
                println!("failure: {}", m);
                println!("VIOLATION property={} replay={}", id, path.display());
                1
            }
            _ => 0,
        };
    }

    let mut violations: Vec<(PathBuf, String)> = vec![];
    let mut known_seen: Vec<String> = vec![];
    let mut total = Agg::default();

    // ---- known findings and regression inputs
    {
        let pp = p.clone();
        let known = load_known(id);
        let regress_dir = Path::new(VERIF_ROOT).join("regress").join(id);
        let mut regress: Vec<PathBuf> = std::fs::read_dir(&regress_dir)
            .map(|d| d.filter_map(|e| e.ok().map(|e| e.path())).filter(|p| p.extension().map_or(false, |x| x == "json")).collect())
            .unwrap_or_default();
        regress.sort();
        let strict = cfg.strict_known;
        let res = run_on_big_stack(move || {
            let mut agg = Agg::default();
            let mut lines: Vec<String> = vec![];
            let mut fails: Vec<Failure<P::Case>> = vec![];
            for k in known {
                let case: P::Case = match serde_json::from_value(k.case.clone()) {
                    Ok(c) => c,
                    Err(e) => {
                        eprintln!("known finding {}: witness does not decode: {}", k.id, e);
                        std::process::exit(2);
                    }
                };
                let o = pp.check(&case);
                agg.add(pp.key(&case), &o);
                agg.fixed += 1;
                match (&o.verdict, k.status.as_str()) {
                    (Verdict::Fail(m), "known") => {
                        if m.contains(&k.signature) && !strict {
                            let one_line: String = m.lines().next().unwrap_or("").chars().take(300).collect();
                            lines.push(format!("KNOWN-FINDING: property={} {} ({}): {}", pp.id(), k.id, k.what, one_line));
                        } else {
                            fails.push(Failure { case, msg: m.clone(), origin: format!("known-finding witness {} (different signature)", k.id) });
                        }
                    }
                    (Verdict::Fail(m), _) => {
                        fails.push(Failure { case, msg: m.clone(), origin: format!("regression of fixed finding {}", k.id) });
                    }
                    (_, "known") => lines.push(format!("note: known finding {} no longer reproduces", k.id)),
                    _ => {}
                }
            }
            for path in regress {
                match load_case::<P>(&path) {
                    Ok(case) => {
                        let o = pp.check(&case);
                        agg.add(pp.key(&case), &o);
                        agg.fixed += 1;
                        if let Verdict::Fail(m) = o.verdict {
                            fails.push(Failure { case, msg: m, origin: format!("regression input {}", path.display()) });
                        }
                    }
                    Err(e) => {
                        eprintln!("regression input does not load: {}", e);
                        std::process::exit(2);
                    }
                }
            }
            (agg, lines, fails)
        })
        .join()
        .expect("regress thread");
        let (agg, lines, fails) = res;
        total.merge(agg);
        for l in lines {
            println!("{}", l);
            known_seen.push(l);
        }
        for f in fails {
            let path = save_replay(&*p, &cfg, &f);
            violations.push((path, format!("{} [{}]", f.msg, f.origin)));
        }
    }

    let stop = Arc::new(AtomicBool::new(false));
    let threads = cfg.threads.max(1);
    let crashlog: Arc<Option<CrashLog>> = Arc::new(CrashLog::open());

    // ---- watchdog: a case that runs longer than 120 s makes the run inconclusive (exit 2)
    let heartbeat: Arc<Vec<AtomicU64>> = Arc::new((0..threads).map(|_| AtomicU64::new(0)).collect());
    let current: Arc<Vec<Mutex<Option<Value>>>> = Arc::new((0..threads).map(|_| Mutex::new(None)).collect());
    {
        let hb = heartbeat.clone();
        let cur = current.clone();
        let stop = stop.clone();
        let idc = id.to_string();
        std::thread::spawn(move || {
            let t0 = Instant::now();
            loop {
                std::thread::sleep(Duration::from_millis(500));
                if stop.load(Ordering::Relaxed) {
                    return;
                }
                let now = t0.elapsed().as_millis() as u64;
                for (i, h) in hb.iter().enumerate() {
                    let started = h.load(Ordering::Relaxed);
                    if started != 0 && now.saturating_sub(started) > 120_000 {
                        let dir = Path::new(VERIF_ROOT).join("replays").join(&idc);
                        let _ = std::fs::create_dir_all(&dir);
                        let path = dir.join(format!("hang-shard{}.json", i));
                        let v = cur[i].lock().unwrap().clone().unwrap_or(Value::Null);
                        let _ = std::fs::write(&path, serde_json::to_string_pretty(&json!({"property": idc, "generated_from": v, "message": "watchdog: case ran > 120 s"})).unwrap());
                        eprintln!("INCONCLUSIVE property={} watchdog: a case ran longer than 120 s; saved {}", idc, path.display());
                        std::process::exit(2);
                    }
                }
            }
        });
    }
    let t0 = Instant::now();

    // ---- fixed cases
    let (fixed, exhaustive) = p.fixed_cases(cfg.tier);
    let n_fixed = fixed.len();
    if !fixed.is_empty() && violations.is_empty() {
        let fixed = Arc::new(fixed);
        let mut handles = vec![];
        for t in 0..threads {
            let pp = p.clone();
            let fixed = fixed.clone();
            let stop = stop.clone();
            let hb = heartbeat.clone();
            let cur = current.clone();
            let crashlog = crashlog.clone();
            handles.push(run_on_big_stack(move || {
                let mut agg = Agg::default();
                let mut fail: Option<Failure<P::Case>> = None;
                let chunk = (fixed.len() + threads - 1) / threads;
                let lo = (t * chunk).min(fixed.len());
                let hi = ((t + 1) * chunk).min(fixed.len());
                for (i, case) in fixed[lo..hi].iter().enumerate() {
                    if stop.load(Ordering::Relaxed) {
                        break;
                    }
                    hb[t].store(t0.elapsed().as_millis() as u64 + 1, Ordering::Relaxed);
                    *cur[t].lock().unwrap() = Some(json!({ "fixed_case_index": lo + i }));
                    if let Some(cl) = &*crashlog {
                        cl.record(t, 2, &[(lo + i) as u32]);
                    }
                    let o = pp.check(case);
                    agg.add(pp.key(case), &o);
                    agg.fixed += 1;
                    if o.nontrivial && agg.samples.len() < 2 && i % 97 == 0 {
                        agg.samples.push(pp.sample(case));
                    }
                    if let Verdict::Fail(m) = o.verdict {
                        fail = Some(Failure { case: case.clone(), msg: m, origin: format!("fixed case #{}", lo + i) });
                        break;
                    }
                }
                hb[t].store(0, Ordering::Relaxed);
                if let Some(cl) = &*crashlog {
                    cl.record(t, 0, &[]);
                }
                (agg, fail)
            }));
        }
        for h in handles {
            let (agg, fail) = h.join().expect("fixed shard");
            total.merge(agg);
            if let Some(f) = fail {
                let path = save_replay(&*p, &cfg, &f);
                violations.push((path, format!("{} [{}]", f.msg, f.origin)));
            }
        }
    }

    // ---- generated cases
    let n_cases = cfg.cases_override.unwrap_or_else(|| p.cases(cfg.tier));
    let tape_len = p.tape_len(cfg.tier);
    let digest_in: Option<Arc<Vec<u64>>> = cfg.digest_in.as_ref().map(|path| {
        let text = std::fs::read_to_string(path).expect("digest file");
        Arc::new(serde_json::from_str::<Vec<u64>>(&text).expect("digest json"))
    });
    let fixed_digest_count = total.digests.len();
    // compare digests of the fixed part
    if let Some(d) = &digest_in {
        for (i, mine) in total.digests.iter().enumerate() {
            if d.get(i) != Some(mine) && violations.is_empty() {
                eprintln!("profile disagreement in fixed/regression case #{}", i);
                let f = Failure {
                    case: p.fixed_cases(cfg.tier).0.into_iter().next().unwrap_or_else(|| {
                        let mut t = Tape::new(&[]);
                        p.generate(&mut t)
                    }),
                    msg: format!("build profiles disagree on fixed/regression case #{} (digest {:?} vs {})", i, d.get(i), mine),
                    origin: "cross-profile".into(),
                };
                let path = save_replay(&*p, &cfg, &f);
                violations.push((path, f.msg.clone()));
                break;
            }
        }
    }
    let per_shard = (n_cases + threads - 1) / threads;
    if n_cases > 0 && violations.is_empty() {
        let mut handles = vec![];
        for t in 0..threads {
            let pp = p.clone();
            let stop = stop.clone();
            let hb = heartbeat.clone();
            let cur = current.clone();
            let seed = cfg.seed;
            let digest_in = digest_in.clone();
            let base = fixed_digest_count + t * per_shard;
            let dump = cfg.dump;
            let crashlog = crashlog.clone();
            handles.push(run_on_big_stack(move || {
                let mut agg = Agg::default();
                let mut fail: Option<Failure<P::Case>> = None;
                let rng = TestRng::from_seed(RngAlgorithm::ChaCha, &shard_seed(seed, t));
                let mut runner = TestRunner::new_with_rng(PtConfig { failure_persistence: None, ..PtConfig::default() }, rng);
                let strat = pvec(any::<u32>(), 0..=tape_len);
                for i in 0..per_shard {
                    if stop.load(Ordering::Relaxed) {
                        break;
                    }
                    let mut tree = strat.new_tree(&mut runner).expect("tape tree");
                    let tape_v = tree.current();
                    // the watchdog must be able to name the very case that hangs (in the generator or in the check):
                    // its tape is cheap to keep
                    hb[t].store(t0.elapsed().as_millis() as u64 + 1, Ordering::Relaxed);
                    *cur[t].lock().unwrap() = Some(json!({ "tape": tape_v }));
                    if let Some(cl) = &*crashlog {
                        cl.record(t, 1, &tape_v);
                    }
                    let mut tape = Tape::new(&tape_v);
                    let case = pp.generate(&mut tape);
                    let mut o = pp.check(&case);
                    if t == 0 && i < dump {
                        println!("--- case {}: {:?} labels={:?} nt={}\n{}", i, o.verdict, o.labels, o.nontrivial, serde_json::to_string_pretty(&pp.sample(&case)).unwrap());
                    }
                    if let Some(d) = &digest_in {
                        if !o.is_fail() {
                            let theirs = d.get(base + i).copied();
                            if theirs != Some(o.digest) {
                                o.verdict = Verdict::Fail(format!(
                                    "build profiles disagree on this case: other profile digest {:?}, this profile {}",
                                    theirs, o.digest
                                ));
                            }
                        }
                    }
                    agg.add(pp.key(&case), &o);
                    agg.generated += 1;
                    if o.nontrivial && !matches!(o.verdict, Verdict::Discard(_)) && agg.samples.len() < 3 && (i % 7 == 3 || per_shard < 50) {
                        agg.samples.push(pp.sample(&case));
                    }
                    if let Verdict::Fail(m) = o.verdict {
                        stop.store(true, Ordering::Relaxed);
                        let is_profile = m.starts_with("build profiles disagree");
                        let (case, msg) = if is_profile { (case, m) } else { shrink(&*pp, &mut tree, (case, m), 4000) };
                        fail = Some(Failure { case, msg, origin: format!("generated case shard {} #{}", t, i) });
                        break;
                    }
                }
                hb[t].store(0, Ordering::Relaxed);
                if let Some(cl) = &*crashlog {
                    cl.record(t, 0, &[]);
                }
                (agg, fail)
            }));
        }
        let mut shard_aggs = vec![];
        for h in handles {
            let (agg, fail) = h.join().expect("shard");
            if let Some(f) = fail {
                let path = save_replay(&*p, &cfg, &f);
                violations.push((path, format!("{} [{}]", f.msg, f.origin)));
            }
            shard_aggs.push(agg);
        }
        // digests must be laid out shard by shard with fixed stride
        for mut agg in shard_aggs {
            agg.digests.resize(per_shard, 0);
            total.merge(agg);
        }
    }
    stop.store(true, Ordering::Relaxed);

    if let Some(path) = &cfg.digest_out {
        std::fs::write(path, serde_json::to_string(&total.digests).unwrap()).expect("write digests");
    }

    // ---- evidence
    let wall = start.elapsed().as_secs_f64();
    let mut labels = serde_json::Map::new();
    for (k, v) in &total.labels {
        labels.insert(k.clone(), json!(v));
    }
    let gaps: Vec<String> = p.expected_labels().into_iter().filter(|l| !total.labels.contains_key(l)).collect();
    let mut coverage = serde_json::Map::new();
    coverage.insert("evaluations".into(), json!(total.evaluations));
    coverage.insert("distinct_nontrivial".into(), json!(total.distinct.len()));
    coverage.insert("nontrivial_cases".into(), json!(total.nontrivial));
    coverage.insert("cases".into(), json!(total.cases));
    coverage.insert("generated_cases".into(), json!(total.generated));
    coverage.insert("fixed_cases".into(), json!(total.fixed));
    coverage.insert("fixed_part_exhaustive".into(), json!(exhaustive && n_fixed > 0));
    coverage.insert("rule".into(), json!(p.rule()));
    coverage.insert("samples".into(), Value::Array(total.samples.clone()));
    coverage.insert("labels".into(), Value::Object(labels));
    coverage.insert("label_gaps".into(), json!(gaps));
    coverage.insert("discards".into(), json!(total.discards));
    coverage.insert("known_findings_seen".into(), json!(known_seen));
    coverage.insert("profile".into(), json!(cfg.profile));
    for (k, v) in p.extra() {
        coverage.insert(k, v);
    }
    let mut ev = json!({
        "property_id": id,
        "tier": cfg.tier.name(),
        "seed": cfg.seed,
        "level": "exploration",
        "coverage": Value::Object(coverage),
        "assumptions": p.assumptions(),
        "wall_s": wall,
        "violations": violations.len(),
    });
    // merge the other profile's part, if any
    if let Some(part) = &cfg.part_in {
        if let Ok(text) = std::fs::read_to_string(part) {
            if let Ok(other) = serde_json::from_str::<Value>(&text) {
                let oc = other.get("coverage").cloned().unwrap_or(Value::Null);
                let add = |a: &Value, b: &Value| json!(a.as_u64().unwrap_or(0) + b.as_u64().unwrap_or(0));
                let cov = ev.get_mut("coverage").unwrap().as_object_mut().unwrap();
                let e2 = add(&cov["evaluations"], &oc["evaluations"]);
                cov.insert("evaluations".into(), e2);
                cov.insert("profiles".into(), json!([oc["profile"], cfg.profile]));
                cov.insert("cross_profile_digests_compared".into(), json!(digest_in.as_ref().map_or(0, |d| d.len())));
                cov.insert("other_profile".into(), json!({"profile": oc["profile"], "evaluations": oc["evaluations"], "labels": oc["labels"], "wall_s": other["wall_s"]}));
                let w = ev["wall_s"].as_f64().unwrap_or(0.0) + other["wall_s"].as_f64().unwrap_or(0.0);
                ev["wall_s"] = json!(w);
            }
        }
    }
    if let Some(dir) = cfg.evidence_out.parent() {
        let _ = std::fs::create_dir_all(dir);
    }
    std::fs::write(&cfg.evidence_out, serde_json::to_string_pretty(&ev).unwrap()).expect("write evidence");

    println!(
        "{} [{} {}] cases={} (fixed {}, generated {}) evaluations={} nontrivial={} distinct_nt={} discards={:?} wall={:.1}s",
        id,
        cfg.tier.name(),
        cfg.profile,
        total.cases,
        total.fixed,
        total.generated,
        total.evaluations,
        total.nontrivial,
        total.distinct.len(),
        total.discards,
        wall
    );
    if !gaps.is_empty() {
        println!("label gaps: {:?}", gaps);
    }
    if violations.is_empty() {
        0
    } else {
        for (path, msg) in &violations {
            println!("failure: {}", msg);
            println!("VIOLATION property={} replay={}", id, path.display());
        }
        1
    }
}
