//! Generic property runner: known-finding witnesses, regression tier, fixed
//! (enumerated) cases, tape-generated cases on 16 big-stack shards with proptest
//! generation + shrinking, replay files, cross-profile digests and evidence.

use engine_core::tape::Tape;
use proptest::collection::vec as pvec;
use proptest::prelude::*;
use proptest::strategy::ValueTree;
use proptest::test_runner::{Config as PtConfig, RngAlgorithm, TestRng, TestRunner};
use serde::de::DeserializeOwned;
use serde::Serialize;
use serde_json::{json, Value};
use std::collections::{BTreeMap, HashSet};
use std::path::{Path, PathBuf};
use std::sync::atomic::{AtomicBool, AtomicU64, Ordering};
use std::sync::{Arc, Mutex};
use std::time::{Duration, Instant};

pub const VERIF_ROOT: &str = "/verif";

/// digest value that compares equal to anything in the cross-profile comparison (see `Outcome::discard_env`)
pub const DIGEST_ANY: u64 = u64::MAX;

/// set once at start-up: checks that scale their per-case work with the tier read it
pub static THOROUGH: AtomicBool = AtomicBool::new(false);

#[derive(Copy, Clone, Debug, PartialEq, Eq)]
pub enum Tier {
    Quick,
    Thorough,
}

impl Tier {
    pub fn name(self) -> &'static str {
        match self {
            Tier::Quick => "quick",
            Tier::Thorough => "thorough",
        }
    }
    pub fn pick<T>(self, q: T, t: T) -> T {
        match self {
            Tier::Quick => q,
            Tier::Thorough => t,
        }
    }
}

#[derive(Clone, Debug)]
pub enum Verdict {
    Pass,
    Fail(String),
    Discard(String),
}

#[derive(Clone, Debug)]
pub struct Outcome {
    pub verdict: Verdict,
    pub labels: Vec<String>,
    pub nontrivial: bool,
    /// digest of everything observable, compared between build profiles
    pub digest: u64,
    /// how many executions of rrss code this case performed
    pub evals: u32,
}

impl Outcome {
    pub fn pass() -> Self {
        Outcome { verdict: Verdict::Pass, labels: vec![], nontrivial: false, digest: 0, evals: 1 }
    }
    pub fn fail(msg: impl Into<String>) -> Self {
        Outcome { verdict: Verdict::Fail(msg.into()), labels: vec![], nontrivial: true, digest: 0, evals: 1 }
    }
    pub fn discard(why: impl Into<String>) -> Self {
        Outcome { verdict: Verdict::Discard(why.into()), labels: vec![], nontrivial: false, digest: 0, evals: 0 }
    }
    /// a case that could not be judged for a reason that lies in the environment, not in the case (a child process
    /// that could not be started or did not finish within its time limit on a loaded machine): counted like any discard,
    /// and left out of the comparison of the two build profiles (the other profile may well have judged it)
    pub fn discard_env(why: impl Into<String>) -> Self {
        Outcome { verdict: Verdict::Discard(why.into()), labels: vec![], nontrivial: false, digest: DIGEST_ANY, evals: 0 }
    }
    pub fn label(mut self, l: impl Into<String>) -> Self {
        self.labels.push(l.into());
        self
    }
    pub fn nt(mut self, b: bool) -> Self {
        self.nontrivial = b;
        self
    }
    pub fn is_fail(&self) -> bool {
        matches!(self.verdict, Verdict::Fail(_))
    }
}

pub struct Config {
    pub tier: Tier,
    pub seed: u64,
    pub profile: String,
    pub replay: Option<PathBuf>,
    pub digest_out: Option<PathBuf>,
    pub digest_in: Option<PathBuf>,
    pub part_in: Option<PathBuf>,
    pub evidence_out: PathBuf,
    pub threads: usize,
    pub cases_override: Option<usize>,
    pub dump: usize,
    pub strict_known: bool,
}

pub trait Prop: Sync + Send {
    type Case: Clone + Serialize + DeserializeOwned + Send + Sync + 'static;
    fn id(&self) -> &'static str;
    fn rule(&self) -> String;
    fn assumptions(&self) -> Vec<String> {
        vec![]
    }
    fn tape_len(&self, tier: Tier) -> usize;
    fn cases(&self, tier: Tier) -> usize;
    fn generate(&self, tape: &mut Tape) -> Self::Case;
    /// enumerated / curated cases, run before the generated ones; `exhaustive` is reported when true
    fn fixed_cases(&self, _tier: Tier) -> (Vec<Self::Case>, bool) {
        (vec![], false)
    }
    fn check(&self, case: &Self::Case) -> Outcome;
    fn sample(&self, case: &Self::Case) -> Value {
        serde_json::to_value(case).unwrap_or(Value::Null)
    }
    fn key(&self, case: &Self::Case) -> u64 {
        crate::run::fnv(serde_json::to_string(case).unwrap_or_default().as_bytes())
    }
    /// labels that the evidence reports as "gap" when never reached
    fn expected_labels(&self) -> Vec<String> {
        vec![]
    }
    /// extra keys for the coverage object
    fn extra(&self) -> BTreeMap<String, Value> {
        BTreeMap::new()
    }
}

/// Post-mortem record for crashes that kill the whole process (SIGSEGV in a release build, abort, stack overflow):
/// every shard copies the tape of the case it is about to run into its slot of a shared, file-backed mapping
/// (a plain memcpy, no system call); when the process dies the driver reads the file, replays the last case of
/// every shard in a fresh process and reports the one that crashes.  File named by VCHECK_CRASHLOG; absent = off.
pub struct CrashLog {
    base: *mut u8,
}
unsafe impl Send for CrashLog {}
unsafe impl Sync for CrashLog {}

pub const CRASH_SLOT_WORDS: usize = 4096;
const CRASH_SLOT_BYTES: usize = 8 + 4 * CRASH_SLOT_WORDS;
const CRASH_SLOTS: usize = 64;

impl CrashLog {
    pub fn open() -> Option<CrashLog> {
        let path = std::env::var("VCHECK_CRASHLOG").ok()?;
        let f = std::fs::OpenOptions::new().read(true).write(true).create(true).truncate(true).open(&path).ok()?;
        f.set_len((CRASH_SLOT_BYTES * CRASH_SLOTS) as u64).ok()?;
        use std::os::unix::io::AsRawFd;
        let p = unsafe { libc::mmap(std::ptr::null_mut(), CRASH_SLOT_BYTES * CRASH_SLOTS, libc::PROT_READ | libc::PROT_WRITE, libc::MAP_SHARED, f.as_raw_fd(), 0) };
        if p == libc::MAP_FAILED {
            return None;
        }
        Some(CrashLog { base: p as *mut u8 })
    }
    /// kind 1 = generated case (tape), 2 = fixed case (index in words[0]), 0 = idle
    pub fn record(&self, slot: usize, kind: u32, words: &[u32]) {
        if slot >= CRASH_SLOTS {
            return;
        }
        let n = words.len().min(CRASH_SLOT_WORDS);
        unsafe {
            let p = self.base.add(slot * CRASH_SLOT_BYTES) as *mut u32;
            p.write_volatile(0);
            p.add(1).write_volatile(n as u32);
            std::ptr::copy_nonoverlapping(words.as_ptr(), p.add(2), n);
            p.write_volatile(kind);
        }
    }
}

#[derive(Default)]
struct Agg {
    evaluations: u64,
    cases: u64,
    generated: u64,
    fixed: u64,
    nontrivial: u64,
    distinct: HashSet<u64>,
    labels: BTreeMap<String, u64>,
    discards: BTreeMap<String, u64>,
    samples: Vec<Value>,
    digests: Vec<u64>,
}

impl Agg {
    fn add(&mut self, key: u64, o: &Outcome) {
        self.cases += 1;
        self.evaluations += o.evals as u64;
        if let Verdict::Discard(why) = &o.verdict {
            *self.discards.entry(why.clone()).or_default() += 1;
        }
        if o.nontrivial && !matches!(o.verdict, Verdict::Discard(_)) {
            self.nontrivial += 1;
            self.distinct.insert(key);
        }
        for l in &o.labels {
            *self.labels.entry(l.clone()).or_default() += 1;
        }
        self.digests.push(o.digest);
    }
    fn merge(&mut self, o: Agg) {
        self.evaluations += o.evaluations;
        self.cases += o.cases;
        self.generated += o.generated;
        self.fixed += o.fixed;
        self.nontrivial += o.nontrivial;
        self.distinct.extend(o.distinct);
        for (k, v) in o.labels {
            *self.labels.entry(k).or_default() += v;
        }
        for (k, v) in o.discards {
            *self.discards.entry(k).or_default() += v;
        }
        for s in o.samples {
            if self.samples.len() < 6 {
                self.samples.push(s);
            }
        }
        self.digests.extend(o.digests);
    }
}

struct Failure<C> {
    case: C,
    msg: String,
    origin: String,
    /// tape the case was generated from (generated cases only)
    tape: Option<Vec<u32>>,
    /// what ran on the same thread before the case, when the failure needs it (see `confirm`)
    history: Vec<HistItem>,
    /// (shard, index): the failure reproduces only by re-running the shard up to this case
    shard_prefix: Option<(usize, usize)>,
}

impl<C> Failure<C> {
    fn plain(case: C, msg: String, origin: String) -> Self {
        Failure { case, msg, origin, tape: None, history: vec![], shard_prefix: None }
    }
}

/// One thing that ran on a shard's thread before a case: an earlier generated case (its tape) or an interlude.
#[derive(Clone, Debug)]
pub enum HistItem {
    Tape(Vec<u32>),
    Poison(u32),
}

fn hist_to_json(h: &[HistItem]) -> Value {
    Value::Array(
        h.iter()
            .map(|i| match i {
                HistItem::Tape(t) => json!({ "tape": t }),
                HistItem::Poison(k) => json!({ "interlude": k, "what": crate::poison::describe(*k) }),
            })
            .collect(),
    )
}

fn hist_from_json(v: &Value) -> Option<Vec<HistItem>> {
    let mut out = vec![];
    for i in v.as_array()? {
        if let Some(t) = i.get("tape") {
            out.push(HistItem::Tape(serde_json::from_value(t.clone()).ok()?));
        } else {
            out.push(HistItem::Poison(i.get("interlude")?.as_u64()? as u32));
        }
    }
    Some(out)
}

/// Pure function of (seed, shard, index): the interlude (see `poison`) that runs on the shard's thread before that case.
fn interlude_for(seed: u64, shard: usize, i: usize) -> Option<u32> {
    let mut x = seed ^ 0xD1B54A32D192ED03u64.wrapping_mul(shard as u64 + 1) ^ (i as u64 + 1).wrapping_mul(0x9E3779B97F4A7C15);
    x = (x ^ (x >> 30)).wrapping_mul(0xbf58476d1ce4e5b9);
    x = (x ^ (x >> 27)).wrapping_mul(0x94d049bb133111eb);
    x ^= x >> 31;
    if x % 12 == 0 {
        Some(((x >> 16) % crate::poison::KINDS as u64) as u32)
    } else {
        None
    }
}

/// Run `hist` and then the case decoded from `tape` on one fresh big-stack thread; the final case and its failure
/// message when it fails there.
fn run_after_history<P: Prop + 'static>(p: &Arc<P>, hist: &[HistItem], tape: &[u32]) -> (P::Case, Option<String>) {
    let pp = p.clone();
    let hist = hist.to_vec();
    let tape = tape.to_vec();
    run_on_big_stack(move || {
        for h in &hist {
            match h {
                HistItem::Poison(k) => {
                    crate::poison::run(*k);
                }
                HistItem::Tape(w) => {
                    let mut t = Tape::new(w);
                    let c = pp.generate(&mut t);
                    let _ = pp.check(&c);
                }
            }
        }
        let mut t = Tape::new(&tape);
        let case = pp.generate(&mut t);
        let v = match pp.check(&case).verdict {
            Verdict::Fail(m) => Some(m),
            _ => None,
        };
        (case, v)
    })
    .join()
    .expect("history thread")
}

/// A generated case failed on a shard's thread.  Decide what the failure depends on:
/// the case alone (fresh thread) -> ordinary failure, shrunk as usual by the caller;
/// the case after (part of) the recent history of the thread -> the smallest such history found goes into the replay;
/// neither -> the replay re-runs the shard up to the case (a shard is a pure function of seed and shard number).
enum Confirmed {
    Alone,
    AfterHistory(Vec<HistItem>),
    ShardPrefix,
}

fn confirm<P: Prop + 'static>(p: &Arc<P>, recent: &[HistItem], tape: &[u32]) -> Confirmed {
    if run_after_history(p, &[], tape).1.is_some() {
        return Confirmed::Alone;
    }
    if recent.is_empty() || run_after_history(p, recent, tape).1.is_none() {
        return Confirmed::ShardPrefix;
    }
    // shortest suffix (doubling), then drop single items greedily
    let mut k = 1;
    let mut h: Vec<HistItem> = recent.to_vec();
    while k < recent.len() {
        let cand = &recent[recent.len() - k..];
        if run_after_history(p, cand, tape).1.is_some() {
            h = cand.to_vec();
            break;
        }
        k *= 2;
    }
    let mut i = 0;
    while i < h.len() && h.len() > 1 {
        let mut cand = h.clone();
        cand.remove(i);
        if run_after_history(p, &cand, tape).1.is_some() {
            h = cand;
        } else {
            i += 1;
        }
    }
    Confirmed::AfterHistory(h)
}

fn shard_seed(seed: u64, shard: usize) -> [u8; 32] {
    let mut s = [0u8; 32];
    let mut x = seed ^ 0x9e3779b97f4a7c15u64.wrapping_mul(shard as u64 + 1);
    for chunk in s.chunks_mut(8) {
        // splitmix64
        x = x.wrapping_add(0x9e3779b97f4a7c15);
        let mut z = x;
        z = (z ^ (z >> 30)).wrapping_mul(0xbf58476d1ce4e5b9);
        z = (z ^ (z >> 27)).wrapping_mul(0x94d049bb133111eb);
        z ^= z >> 31;
        chunk.copy_from_slice(&z.to_le_bytes());
    }
    s
}

fn run_on_big_stack<T: Send + 'static>(f: impl FnOnce() -> T + Send + 'static) -> std::thread::JoinHandle<T> {
    std::thread::Builder::new().stack_size(1 << 30).spawn(f).expect("spawn")
}

fn save_replay<P: Prop>(p: &P, cfg: &Config, f: &Failure<P::Case>) -> PathBuf {
    let dir = Path::new(VERIF_ROOT).join("replays").join(p.id());
    let _ = std::fs::create_dir_all(&dir);
    let body = json!({
        "property": p.id(),
        "message": f.msg,
        "origin": f.origin,
        "seed": cfg.seed,
        "tier": cfg.tier.name(),
        "profile": cfg.profile,
        "sample": p.sample(&f.case),
        "case": serde_json::to_value(&f.case).unwrap_or(Value::Null),
    });
    let mut body = body;
    if !f.history.is_empty() || f.shard_prefix.is_some() {
        // the failure needs what ran before it on the same thread: the replay re-creates that
        body["generated_from"] = json!({ "tape": f.tape });
        if !f.history.is_empty() {
            body["history"] = hist_to_json(&f.history);
        }
        if let Some((shard, index)) = f.shard_prefix {
            body["shard_prefix"] = json!({ "shard": shard, "index": index, "seed": cfg.seed, "tier": cfg.tier.name() });
        }
    }
    let text = serde_json::to_string_pretty(&body).unwrap();
    let path = dir.join(format!("{:016x}.json", crate::run::fnv(text.as_bytes())));
    std::fs::write(&path, text).expect("write replay");
    path
}

pub fn load_case<P: Prop>(path: &Path) -> Result<P::Case, String> {
    let text = std::fs::read_to_string(path).map_err(|e| format!("{}: {}", path.display(), e))?;
    let v: Value = serde_json::from_str(&text).map_err(|e| format!("{}: {}", path.display(), e))?;
    let c = v.get("case").cloned().unwrap_or(v);
    serde_json::from_value(c).map_err(|e| format!("{}: {}", path.display(), e))
}

struct Known {
    id: String,
    status: String,
    what: String,
    signature: String,
    case: Value,
}

fn load_known(prop: &str) -> Vec<Known> {
    let path = Path::new(VERIF_ROOT).join("known_findings.json");
    let Ok(text) = std::fs::read_to_string(&path) else { return vec![] };
    let Ok(v) = serde_json::from_str::<Value>(&text) else {
        eprintln!("known_findings.json does not parse");
        std::process::exit(2);
    };
    let mut out = vec![];
    for e in v.get("findings").and_then(|f| f.as_array()).cloned().unwrap_or_default() {
        let witnesses = e.get("witnesses").and_then(|w| w.as_array()).cloned().unwrap_or_default();
        for w in witnesses {
            if w.get("property").and_then(|p| p.as_str()) != Some(prop) {
                continue;
            }
            out.push(Known {
                id: e.get("id").and_then(|x| x.as_str()).unwrap_or("?").to_string(),
                status: e.get("status").and_then(|x| x.as_str()).unwrap_or("known").to_string(),
                what: e.get("what").and_then(|x| x.as_str()).unwrap_or("").to_string(),
                signature: w.get("signature").and_then(|x| x.as_str()).unwrap_or("").to_string(),
                case: w.get("case").cloned().unwrap_or(Value::Null),
            });
        }
    }
    out
}

/// proptest shrinking on the tape: `test` re-decodes and re-checks a candidate (on this thread, or after a history on
/// a fresh one) and returns the case and message when it still fails
fn shrink<C>(
    tree: &mut impl ValueTree<Value = Vec<u32>>,
    first: (C, String, Vec<u32>),
    budget: usize,
    mut test: impl FnMut(&Vec<u32>) -> Option<(C, String)>,
) -> (C, String, Vec<u32>) {
    let mut best = first;
    let mut steps = 0usize;
    let deadline = Instant::now() + Duration::from_secs(120);
    if !tree.simplify() {
        return best;
    }
    loop {
        steps += 1;
        if steps > budget || Instant::now() > deadline {
            break;
        }
        let cur = tree.current();
        if let Some((c, m)) = test(&cur) {
            best = (c, m, cur);
            if !tree.simplify() {
                break;
            }
        } else if !tree.complicate() {
            break;
        }
    }
    best
}

/// What a shard carries from one thread to the next (a shard moves to a fresh thread after every unwind).
struct ShardState<C> {
    agg: Agg,
    fail: Option<Failure<C>>,
    runner: TestRunner,
    /// next case index
    i: usize,
    done: bool,
    interludes: u64,
    migrations: u64,
    /// replay of a shard prefix: the verdict of the last case
    last: Option<(C, Option<String>)>,
}

struct ShardEnv {
    seed: u64,
    t: usize,
    tape_len: usize,
    /// run cases [0, upto)
    upto: usize,
    base: usize,
    dump: usize,
    stop: Arc<AtomicBool>,
    hb: Arc<Vec<AtomicU64>>,
    cur: Arc<Vec<Mutex<Option<Value>>>>,
    crashlog: Arc<Option<CrashLog>>,
    digest_in: Option<Arc<Vec<u64>>>,
    t0: Instant,
    /// replay mode: no shrinking, no confirmation; remember the verdict of the last case
    replaying: bool,
}

const RECENT: usize = 48;

/// Run cases of one shard on the current (fresh, big-stack) thread until the shard is finished, a case fails, or
/// something unwound on this thread (then the caller continues the shard on a new thread).
fn shard_segment<P: Prop + 'static>(pp: &Arc<P>, env: &ShardEnv, mut st: ShardState<P::Case>) -> ShardState<P::Case> {
    let t = env.t;
    let strat = pvec(any::<u32>(), 0..=env.tape_len);
    let mut recent: std::collections::VecDeque<HistItem> = std::collections::VecDeque::new();
    let unwinds_at_start = crate::run::unwinds();
    while st.i < env.upto {
        if env.stop.load(Ordering::Relaxed) {
            st.done = true;
            break;
        }
        let i = st.i;
        st.i += 1;
        let mut tree = strat.new_tree(&mut st.runner).expect("tape tree");
        let tape_v = tree.current();
        // the watchdog must be able to name the very case that hangs (in the generator or in the check): its tape is cheap to keep
        env.hb[t].store(env.t0.elapsed().as_millis() as u64 + 1, Ordering::Relaxed);
        *env.cur[t].lock().unwrap() = Some(json!({ "tape": tape_v }));
        if let Some(kind) = interlude_for(env.seed, t, i) {
            crate::poison::run(kind);
            st.interludes += 1;
            if recent.len() == RECENT {
                recent.pop_front();
            }
            recent.push_back(HistItem::Poison(kind));
        }
        if let Some(cl) = &*env.crashlog {
            cl.record(t, 1, &tape_v);
        }
        let mut tape = Tape::new(&tape_v);
        let case = pp.generate(&mut tape);
        let mut o = pp.check(&case);
        if t == 0 && i < env.dump {
            println!("--- case {}: {:?} labels={:?} nt={}\n{}", i, o.verdict, o.labels, o.nontrivial, serde_json::to_string_pretty(&pp.sample(&case)).unwrap());
        }
        if let Some(d) = &env.digest_in {
            if !o.is_fail() {
                let theirs = d.get(env.base + i).copied();
                if theirs != Some(o.digest) && theirs != Some(DIGEST_ANY) && o.digest != DIGEST_ANY {
                    o.verdict = Verdict::Fail(format!("build profiles disagree on this case: other profile digest {:?}, this profile {}", theirs, o.digest));
                }
            }
        }
        if env.replaying {
            let v = match &o.verdict {
                Verdict::Fail(m) => Some(m.clone()),
                _ => None,
            };
            st.last = Some((case, v));
        } else {
            st.agg.add(pp.key(&case), &o);
            st.agg.generated += 1;
            if o.nontrivial && !matches!(o.verdict, Verdict::Discard(_)) && st.agg.samples.len() < 3 && (i % 7 == 3 || env.upto < 50) {
                st.agg.samples.push(pp.sample(&case));
            }
            if let Verdict::Fail(m) = o.verdict {
                env.stop.store(true, Ordering::Relaxed);
                st.done = true;
                let origin = format!("generated case shard {} #{}", t, i);
                if m.starts_with("build profiles disagree") {
                    st.fail = Some(Failure { case, msg: m, origin, tape: Some(tape_v), history: vec![], shard_prefix: None });
                    break;
                }
                let recent_v: Vec<HistItem> = recent.iter().cloned().collect();
                st.fail = Some(match confirm(pp, &recent_v, &tape_v) {
                    Confirmed::Alone => {
                        let (case, msg, tape) = shrink(&mut tree, (case, m, tape_v), 4000, |t: &Vec<u32>| {
                            let mut tape = Tape::new(t);
                            let case = pp.generate(&mut tape);
                            match pp.check(&case).verdict {
                                Verdict::Fail(m) => Some((case, m)),
                                _ => None,
                            }
                        });
                        Failure { case, msg, origin, tape: Some(tape), history: vec![], shard_prefix: None }
                    }
                    Confirmed::AfterHistory(h) => {
                        let (case, msg, tape) = shrink(&mut tree, (case, m, tape_v), 300, |t: &Vec<u32>| {
                            let (c, v) = run_after_history(pp, &h, t);
                            v.map(|m| (c, m))
                        });
                        let msg = format!(
                            "{}\n--- note: this case passes when it is the first thing run on a thread; it fails after the {} earlier step(s) recorded in the replay ran on the same thread (something they left behind changes its result)",
                            msg,
                            h.len()
                        );
                        Failure { case, msg, origin, tape: Some(tape), history: h, shard_prefix: None }
                    }
                    Confirmed::ShardPrefix => {
                        let msg = format!(
                            "{}\n--- note: this case passes when it is the first thing run on a thread, and after the last {} steps of its shard; it fails after the whole sequence of cases that ran before it on the same thread (the replay re-runs shard {} up to case #{})",
                            m, recent_v.len(), t, i
                        );
                        Failure { case, msg, origin, tape: Some(tape_v), history: vec![], shard_prefix: Some((t, i)) }
                    }
                });
                break;
            }
        }
        if crate::run::unwinds() != unwinds_at_start {
            // something unwound through rrss on this thread (fuel hook or a panic already judged): whatever that left
            // behind is not rrss's fault, so the shard goes on from a clean thread
            st.migrations += 1;
            break;
        }
        if recent.len() == RECENT {
            recent.pop_front();
        }
        recent.push_back(HistItem::Tape(tape_v));
    }
    if st.i >= env.upto {
        st.done = true;
    }
    env.hb[t].store(0, Ordering::Relaxed);
    if let Some(cl) = &*env.crashlog {
        cl.record(t, 0, &[]);
    }
    st
}

/// Run one shard to its end, on as many successive big-stack threads as it takes.
fn run_shard<P: Prop + 'static>(pp: Arc<P>, env: ShardEnv) -> ShardState<P::Case> {
    let rng = TestRng::from_seed(RngAlgorithm::ChaCha, &shard_seed(env.seed, env.t));
    let runner = TestRunner::new_with_rng(PtConfig { failure_persistence: None, ..PtConfig::default() }, rng);
    let mut st: ShardState<P::Case> = ShardState { agg: Agg::default(), fail: None, runner, i: 0, done: false, interludes: 0, migrations: 0, last: None };
    let env = Arc::new(env);
    while !st.done {
        let pp = pp.clone();
        let env = env.clone();
        st = run_on_big_stack(move || shard_segment(&pp, &env, st)).join().expect("shard");
    }
    st
}

pub fn run<P: Prop + 'static>(p: Arc<P>, cfg: Config) -> i32 {
    let start = Instant::now();
    THOROUGH.store(cfg.tier == Tier::Thorough, Ordering::Relaxed);
    crate::run::install_panic_hook();
    let id = p.id();

    // ---- replay mode
    if let Some(path) = &cfg.replay {
        let from_tape = std::fs::read_to_string(path).ok().and_then(|t| serde_json::from_str::<Value>(&t).ok()).and_then(|v| {
            let g = v.get("generated_from")?;
            if let Some(tape) = g.get("tape") {
                let words: Vec<u32> = serde_json::from_value(tape.clone()).ok()?;
                let mut t = Tape::new(&words);
                return Some(p.generate(&mut t));
            }
            let idx = g.get("fixed_case_index")?.as_u64()? as usize;
            p.fixed_cases(cfg.tier).0.into_iter().nth(idx)
        });
        let rv: Value = std::fs::read_to_string(path).ok().and_then(|t| serde_json::from_str::<Value>(&t).ok()).unwrap_or(Value::Null);
        let tape_of = |v: &Value| -> Option<Vec<u32>> { serde_json::from_value(v.get("generated_from")?.get("tape")?.clone()).ok() };
        if let Some(sp) = rv.get("shard_prefix") {
            // the failure depends on everything its shard ran before it: re-run the shard up to the case
            let (shard, index) = (sp["shard"].as_u64().unwrap_or(0) as usize, sp["index"].as_u64().unwrap_or(0) as usize);
            let seed = sp["seed"].as_u64().unwrap_or(cfg.seed);
            let tier = if sp["tier"].as_str() == Some("thorough") { Tier::Thorough } else { Tier::Quick };
            THOROUGH.store(tier == Tier::Thorough, Ordering::Relaxed);
            let env = ShardEnv {
                seed,
                t: shard,
                tape_len: p.tape_len(tier),
                upto: index + 1,
                base: 0,
                dump: 0,
                stop: Arc::new(AtomicBool::new(false)),
                hb: Arc::new((0..=shard).map(|_| AtomicU64::new(0)).collect()),
                cur: Arc::new((0..=shard).map(|_| Mutex::new(None)).collect()),
                crashlog: Arc::new(None),
                digest_in: None,
                t0: Instant::now(),
                replaying: true,
            };
            let pp = p.clone();
            let st = std::thread::spawn(move || run_shard(pp, env)).join().expect("replay shard");
            let Some((case, v)) = st.last else {
                eprintln!("cannot replay: shard prefix is empty");
                return 2;
            };
            println!("replay {} (shard {} cases 0..={}): {}", path.display(), shard, index, if v.is_some() { "Fail" } else { "Pass" });
            println!("sample: {}", serde_json::to_string_pretty(&p.sample(&case)).unwrap());
            return match v {
                Some(m) => {
                    println!("failure: {}", m);
                    println!("VIOLATION property={} replay={}", id, path.display());
                    1
                }
                None => 0,
            };
        }
        if let (Some(h), Some(tape)) = (rv.get("history").and_then(hist_from_json), tape_of(&rv)) {
            let (case, v) = run_after_history(&p, &h, &tape);
            println!("replay {} (after {} earlier steps on the same thread): {}", path.display(), h.len(), if v.is_some() { "Fail" } else { "Pass" });
            println!("sample: {}", serde_json::to_string_pretty(&p.sample(&case)).unwrap());
            return match v {
                Some(m) => {
                    println!("failure: {}", m);
                    println!("VIOLATION property={} replay={}", id, path.display());
                    1
                }
                None => 0,
            };
        }
        let case = match from_tape.map(Ok).unwrap_or_else(|| load_case::<P>(path)) {
            Ok(c) => c,
            Err(e) => {
                eprintln!("cannot load replay: {}", e);
                return 2;
            }
        };
        let pp = p.clone();
        let c2 = case.clone();
        let o = run_on_big_stack(move || pp.check(&c2)).join().expect("replay thread");
        println!("replay {}: {:?}", path.display(), o.verdict);
        println!("sample: {}", serde_json::to_string_pretty(&p.sample(&case)).unwrap());
        return match o.verdict {
            Verdict::Fail(m) => {
                println!("failure: {}", m);
                println!("VIOLATION property={} replay={}", id, path.display());
                1
            }
            _ => 0,
        };
    }

    let mut violations: Vec<(PathBuf, String)> = vec![];
    let mut known_seen: Vec<String> = vec![];
    let mut total = Agg::default();

    // ---- known findings and regression inputs
    {
        let pp = p.clone();
        let known = load_known(id);
        let regress_dir = Path::new(VERIF_ROOT).join("regress").join(id);
        let mut regress: Vec<PathBuf> = std::fs::read_dir(&regress_dir)
            .map(|d| d.filter_map(|e| e.ok().map(|e| e.path())).filter(|p| p.extension().map_or(false, |x| x == "json")).collect())
            .unwrap_or_default();
        regress.sort();
        let strict = cfg.strict_known;
        let res = run_on_big_stack(move || {
            let mut agg = Agg::default();
            let mut lines: Vec<String> = vec![];
            let mut fails: Vec<Failure<P::Case>> = vec![];
            for k in known {
                let case: P::Case = match serde_json::from_value(k.case.clone()) {
                    Ok(c) => c,
                    Err(e) => {
                        eprintln!("known finding {}: witness does not decode: {}", k.id, e);
                        std::process::exit(2);
                    }
                };
                let o = pp.check(&case);
                agg.add(pp.key(&case), &o);
                agg.fixed += 1;
                match (&o.verdict, k.status.as_str()) {
                    (Verdict::Fail(m), "known") => {
                        if m.contains(&k.signature) && !strict {
                            let one_line: String = m.lines().next().unwrap_or("").chars().take(300).collect();
                            lines.push(format!("KNOWN-FINDING: property={} {} ({}): {}", pp.id(), k.id, k.what, one_line));
                        } else {
                            fails.push(Failure::plain(case, m.clone(), format!("known-finding witness {} (different signature)", k.id)));
                        }
                    }
                    (Verdict::Fail(m), _) => {
                        fails.push(Failure::plain(case, m.clone(), format!("regression of fixed finding {}", k.id)));
                    }
                    (_, "known") => lines.push(format!("note: known finding {} no longer reproduces", k.id)),
                    _ => {}
                }
            }
            for path in regress {
                match load_case::<P>(&path) {
                    Ok(case) => {
                        let o = pp.check(&case);
                        agg.add(pp.key(&case), &o);
                        agg.fixed += 1;
                        if let Verdict::Fail(m) = o.verdict {
                            fails.push(Failure::plain(case, m, format!("regression input {}", path.display())));
                        }
                    }
                    Err(e) => {
                        eprintln!("regression input does not load: {}", e);
                        std::process::exit(2);
                    }
                }
            }
            (agg, lines, fails)
        })
        .join()
        .expect("regress thread");
        let (agg, lines, fails) = res;
        total.merge(agg);
        for l in lines {
            println!("{}", l);
            known_seen.push(l);
        }
        for f in fails {
            let path = save_replay(&*p, &cfg, &f);
            violations.push((path, format!("{} [{}]", f.msg, f.origin)));
        }
    }

    let stop = Arc::new(AtomicBool::new(false));
    let threads = cfg.threads.max(1);
    let crashlog: Arc<Option<CrashLog>> = Arc::new(CrashLog::open());

    // ---- watchdog: a case that runs longer than 120 s makes the run inconclusive (exit 2)
    let heartbeat: Arc<Vec<AtomicU64>> = Arc::new((0..threads).map(|_| AtomicU64::new(0)).collect());
    let current: Arc<Vec<Mutex<Option<Value>>>> = Arc::new((0..threads).map(|_| Mutex::new(None)).collect());
    {
        let hb = heartbeat.clone();
        let cur = current.clone();
        let stop = stop.clone();
        let idc = id.to_string();
        std::thread::spawn(move || {
            let t0 = Instant::now();
            loop {
                std::thread::sleep(Duration::from_millis(500));
                if stop.load(Ordering::Relaxed) {
                    return;
                }
                let now = t0.elapsed().as_millis() as u64;
                for (i, h) in hb.iter().enumerate() {
                    let started = h.load(Ordering::Relaxed);
                    if started != 0 && now.saturating_sub(started) > 120_000 {
                        let dir = Path::new(VERIF_ROOT).join("replays").join(&idc);
                        let _ = std::fs::create_dir_all(&dir);
                        let path = dir.join(format!("hang-shard{}.json", i));
                        let v = cur[i].lock().unwrap().clone().unwrap_or(Value::Null);
                        let _ = std::fs::write(&path, serde_json::to_string_pretty(&json!({"property": idc, "generated_from": v, "message": "watchdog: case ran > 120 s"})).unwrap());
                        eprintln!("INCONCLUSIVE property={} watchdog: a case ran longer than 120 s; saved {}", idc, path.display());
                        std::process::exit(2);
                    }
                }
            }
        });
    }
    let t0 = Instant::now();

    // ---- fixed cases
    let (fixed, exhaustive) = p.fixed_cases(cfg.tier);
    let n_fixed = fixed.len();
    if !fixed.is_empty() && violations.is_empty() {
        let fixed = Arc::new(fixed);
        let mut handles = vec![];
        for t in 0..threads {
            let pp = p.clone();
            let fixed = fixed.clone();
            let stop = stop.clone();
            let hb = heartbeat.clone();
            let cur = current.clone();
            let crashlog = crashlog.clone();
            handles.push(run_on_big_stack(move || {
                let mut agg = Agg::default();
                let mut fail: Option<Failure<P::Case>> = None;
                let chunk = (fixed.len() + threads - 1) / threads;
                let lo = (t * chunk).min(fixed.len());
                let hi = ((t + 1) * chunk).min(fixed.len());
                for (i, case) in fixed[lo..hi].iter().enumerate() {
                    if stop.load(Ordering::Relaxed) {
                        break;
                    }
                    hb[t].store(t0.elapsed().as_millis() as u64 + 1, Ordering::Relaxed);
                    *cur[t].lock().unwrap() = Some(json!({ "fixed_case_index": lo + i }));
                    if let Some(cl) = &*crashlog {
                        cl.record(t, 2, &[(lo + i) as u32]);
                    }
                    let o = pp.check(case);
                    agg.add(pp.key(case), &o);
                    agg.fixed += 1;
                    if o.nontrivial && agg.samples.len() < 2 && i % 97 == 0 {
                        agg.samples.push(pp.sample(case));
                    }
                    if let Verdict::Fail(m) = o.verdict {
                        fail = Some(Failure::plain(case.clone(), m, format!("fixed case #{}", lo + i)));
                        break;
                    }
                }
                hb[t].store(0, Ordering::Relaxed);
                if let Some(cl) = &*crashlog {
                    cl.record(t, 0, &[]);
                }
                (agg, fail)
            }));
        }
        for h in handles {
            let (agg, fail) = h.join().expect("fixed shard");
            total.merge(agg);
            if let Some(f) = fail {
                let path = save_replay(&*p, &cfg, &f);
                violations.push((path, format!("{} [{}]", f.msg, f.origin)));
            }
        }
    }

    // ---- generated cases
    let n_cases = cfg.cases_override.unwrap_or_else(|| p.cases(cfg.tier));
    let tape_len = p.tape_len(cfg.tier);
    let digest_in: Option<Arc<Vec<u64>>> = cfg.digest_in.as_ref().map(|path| {
        let text = std::fs::read_to_string(path).expect("digest file");
        Arc::new(serde_json::from_str::<Vec<u64>>(&text).expect("digest json"))
    });
    let fixed_digest_count = total.digests.len();
    // compare digests of the fixed part
    if let Some(d) = &digest_in {
        for (i, mine) in total.digests.iter().enumerate() {
            if d.get(i) != Some(mine) && d.get(i) != Some(&DIGEST_ANY) && *mine != DIGEST_ANY && violations.is_empty() {
                eprintln!("profile disagreement in fixed/regression case #{}", i);
                let f = Failure {
                    case: p.fixed_cases(cfg.tier).0.into_iter().next().unwrap_or_else(|| {
                        let mut t = Tape::new(&[]);
                        p.generate(&mut t)
                    }),
                    msg: format!("build profiles disagree on fixed/regression case #{} (digest {:?} vs {})", i, d.get(i), mine),
                    origin: "cross-profile".into(),
                    tape: None,
                    history: vec![],
                    shard_prefix: None,
                };
                let path = save_replay(&*p, &cfg, &f);
                violations.push((path, f.msg.clone()));
                break;
            }
        }
    }
    let per_shard = (n_cases + threads - 1) / threads;
    let mut interludes = 0u64;
    let mut migrations = 0u64;
    if n_cases > 0 && violations.is_empty() {
        let mut handles = vec![];
        for t in 0..threads {
            let env = ShardEnv {
                seed: cfg.seed,
                t,
                tape_len,
                upto: per_shard,
                base: fixed_digest_count + t * per_shard,
                dump: cfg.dump,
                stop: stop.clone(),
                hb: heartbeat.clone(),
                cur: current.clone(),
                crashlog: crashlog.clone(),
                digest_in: digest_in.clone(),
                t0,
                replaying: false,
            };
            let pp = p.clone();
            handles.push(std::thread::spawn(move || run_shard(pp, env)));
        }
        let mut shard_aggs = vec![];
        for h in handles {
            let st = h.join().expect("shard");
            interludes += st.interludes;
            migrations += st.migrations;
            if let Some(f) = st.fail {
                let path = save_replay(&*p, &cfg, &f);
                violations.push((path, format!("{} [{}]", f.msg, f.origin)));
            }
            shard_aggs.push(st.agg);
        }
        // digests must be laid out shard by shard with fixed stride
        for mut agg in shard_aggs {
            agg.digests.resize(per_shard, 0);
            total.merge(agg);
        }
    }
    stop.store(true, Ordering::Relaxed);

    if let Some(path) = &cfg.digest_out {
        std::fs::write(path, serde_json::to_string(&total.digests).unwrap()).expect("write digests");
    }

    // ---- evidence
    let wall = start.elapsed().as_secs_f64();
    let mut labels = serde_json::Map::new();
    for (k, v) in &total.labels {
        labels.insert(k.clone(), json!(v));
    }
    let gaps: Vec<String> = p.expected_labels().into_iter().filter(|l| !total.labels.contains_key(l)).collect();
    let mut coverage = serde_json::Map::new();
    coverage.insert("evaluations".into(), json!(total.evaluations));
    coverage.insert("distinct_nontrivial".into(), json!(total.distinct.len()));
    coverage.insert("nontrivial_cases".into(), json!(total.nontrivial));
    coverage.insert("cases".into(), json!(total.cases));
    coverage.insert("generated_cases".into(), json!(total.generated));
    coverage.insert("fixed_cases".into(), json!(total.fixed));
    coverage.insert("fixed_part_exhaustive".into(), json!(exhaustive && n_fixed > 0));
    coverage.insert("rule".into(), json!(p.rule()));
    coverage.insert("samples".into(), Value::Array(total.samples.clone()));
    coverage.insert("labels".into(), Value::Object(labels));
    coverage.insert("label_gaps".into(), json!(gaps));
    coverage.insert("discards".into(), json!(total.discards));
    coverage.insert("known_findings_seen".into(), json!(known_seen));
    coverage.insert(
        "same_thread_history".into(),
        json!({
            "what": "the generated cases of a shard run one after another on one thread; before about every 12th case an interlude runs there too (runtime errors deep inside calls and loops, output and input streams failing at a byte offset, rejected texts, lint runs; results thrown away). A case that fails only after such a history is reported with the history in its replay. After anything unwinds through rrss (fuel hook) the shard continues on a fresh thread.",
            "interludes_run": interludes,
            "interlude_kinds": crate::poison::KINDS,
            "moves_to_a_fresh_thread_after_an_unwind": migrations,
        }),
    );
    coverage.insert("profile".into(), json!(cfg.profile));
    for (k, v) in p.extra() {
        coverage.insert(k, v);
    }
    let mut ev = json!({
        "property_id": id,
        "tier": cfg.tier.name(),
        "seed": cfg.seed,
        "level": "exploration",
        "coverage": Value::Object(coverage),
        "assumptions": p.assumptions(),
        "wall_s": wall,
        "violations": violations.len(),
    });
    // merge the other profile's part, if any
    if let Some(part) = &cfg.part_in {
        if let Ok(text) = std::fs::read_to_string(part) {
            if let Ok(other) = serde_json::from_str::<Value>(&text) {
                let oc = other.get("coverage").cloned().unwrap_or(Value::Null);
                let add = |a: &Value, b: &Value| json!(a.as_u64().unwrap_or(0) + b.as_u64().unwrap_or(0));
                let cov = ev.get_mut("coverage").unwrap().as_object_mut().unwrap();
                let e2 = add(&cov["evaluations"], &oc["evaluations"]);
                cov.insert("evaluations".into(), e2);
                cov.insert("profiles".into(), json!([oc["profile"], cfg.profile]));
                cov.insert("cross_profile_digests_compared".into(), json!(digest_in.as_ref().map_or(0, |d| d.len())));
                cov.insert("other_profile".into(), json!({"profile": oc["profile"], "evaluations": oc["evaluations"], "labels": oc["labels"], "wall_s": other["wall_s"]}));
                let w = ev["wall_s"].as_f64().unwrap_or(0.0) + other["wall_s"].as_f64().unwrap_or(0.0);
                ev["wall_s"] = json!(w);
            }
        }
    }
    if let Some(dir) = cfg.evidence_out.parent() {
        let _ = std::fs::create_dir_all(dir);
    }
    std::fs::write(&cfg.evidence_out, serde_json::to_string_pretty(&ev).unwrap()).expect("write evidence");

    println!(
        "{} [{} {}] cases={} (fixed {}, generated {}) evaluations={} nontrivial={} distinct_nt={} discards={:?} wall={:.1}s",
        id,
        cfg.tier.name(),
        cfg.profile,
        total.cases,
        total.fixed,
        total.generated,
        total.evaluations,
        total.nontrivial,
        total.distinct.len(),
        total.discards,
        wall
    );
    if !gaps.is_empty() {
        println!("label gaps: {:?}", gaps);
    }
    if violations.is_empty() {
        0
    } else {
        for (path, msg) in &violations {
            println!("failure: {}", msg);
            println!("VIOLATION property={} replay={}", id, path.display());
        }
        1
    }
}
