//! Differential runner: reference model vs rrss on a mini-AST program.

use crate::harness::Outcome;
use crate::run::{exec_rrss, fnv_str, parse_rrss, Caught, Limits as RLimits};
use engine_core::ast::Program;
use engine_core::model::{self, Limits, Run, Scoping, Stop};
use engine_core::render::{render, RenderOpts};

pub struct DiffOpts<'a> {
    pub stdin: &'a str,
    pub spelling: &'a [u32],
    pub render: RenderOpts,
    /// also run the lexical-scope reading and skip when the readings disagree
    pub both_scopings: bool,
    pub lim: Limits,
}

impl<'a> Default for DiffOpts<'a> {
    fn default() -> Self {
        DiffOpts { stdin: "", spelling: &[], render: RenderOpts::CANONICAL, both_scopings: false, lim: Limits::default() }
    }
}

pub enum Diff {
    /// the case could not be judged (counted)
    Discard(String),
    Fail(String),
    /// agreement: the model run and the source text
    Agree { model: Run, src: String, digest: u64, tree_differs: bool, reading: Option<&'static str> },
}

pub fn differential(prog: &Program, o: &DiffOpts) -> Diff {
    if let Err(e) = prog.validate() {
        // a generator produced a tree the grammar cannot express: my bug, counted, must be 0
        if std::env::var_os("VCHECK_DEBUG_MISMATCH").is_some() {
            eprintln!("INEXPRESSIBLE {}", e);
        }
        return Diff::Discard(format!("generator_bug:{}", e));
    }
    let src = render(prog, o.spelling, o.render).text;
    // reference first: programs outside the budget are never shown to rrss
    let m = model::run(prog, o.stdin, Scoping::Dynamic, o.lim);
    match &m.result {
        Err(Stop::Budget(w)) => return Diff::Discard(format!("budget:{}", w)),
        Err(Stop::Unspecified(w)) => return Diff::Discard(format!("unspecified:{}", w)),
        _ => {}
    }
    // the second reading of "enclosing scope", when it gives this program another meaning: rrss must then behave like
    // one of the two readings as a whole (an implementation that follows neither is wrong under both)
    let mut other: Option<Run> = None;
    if o.both_scopings {
        let l = model::run(prog, o.stdin, Scoping::Lexical, o.lim);
        if !l.judged() {
            return Diff::Discard("scope_reading".into());
        }
        if l.out != m.out || l.result.is_ok() != m.result.is_ok() {
            other = Some(l);
        }
    }
    let tree = match parse_rrss(&src, Some(crate::run::parse_fuel_for(&src))) {
        Caught::Done(Ok(t)) => t,
        Caught::Done(Err(e)) => return Diff::Discard(format!("render_mismatch:rejected:{}", e.code)),
        Caught::Panic(p) => return Diff::Discard(format!("render_mismatch:parse_panic:{}", p)),
        Caught::Budget(_) => return Diff::Discard("render_mismatch:parse_fuel".into()),
    };
    // A parsed tree that differs from the generated one is C02's subject as such; here the program is run all the
    // same and judged by its behaviour: a mis-parse that changes what the text does violates this property too.
    let tree_differs = &crate::adapt::program(&tree) != prog;
    let note = if tree_differs {
        if std::env::var_os("VCHECK_DEBUG_MISMATCH").is_some() {
            eprintln!("MISMATCH {}\n{}", crate::props::c02::first_difference(prog, &crate::adapt::program(&tree)), src);
        }
        format!("\n--- note: the parser's tree differs from the tree this text was rendered from: {}", crate::props::c02::first_difference(prog, &crate::adapt::program(&tree)))
    } else {
        String::new()
    };
    let steps = m.steps.max(other.as_ref().map_or(0, |l| l.steps));
    let lim = RLimits { exec_fuel: Some(10 * steps + 100), alloc_cap: Some(4_000_000) };
    let (caught, out) = exec_rrss(&tree, o.stdin.as_bytes(), lim);
    let got = out.stdout_str();
    if other.is_some() && matches!(caught, Caught::Done(())) {
        let like = |r: &Run| got == r.out && out.ok() == r.result.is_ok();
        let digest = fnv_str(&got) ^ fnv_str(&format!("{:?}", out.err));
        if like(&m) {
            return Diff::Agree { model: m, src, digest, tree_differs, reading: Some("dynamic") };
        }
        let l = other.unwrap();
        if like(&l) {
            return Diff::Agree { model: l, src, digest, tree_differs, reading: Some("lexical") };
        }
        return Diff::Fail(format!(
            "behaviour matches neither reading of the scope rules\n--- names resolved along the chain of active calls: {:?} {:?}\n--- names resolved in the function's own scopes and the globals: {:?} {:?}\n--- rrss: {:?} {:?}\n--- program:\n{}{}",
            m.out, m.result, l.out, l.result, got, out.err, src, note
        ));
    }
    match caught {
        Caught::Panic(p) => {
            return Diff::Fail(format!("rrss panicked: {}\n--- stdout so far: {:?}\n--- program:\n{}{}", p, got, src, note));
        }
        Caught::Budget(b) => {
            return Diff::Fail(format!(
                "rrss exceeded the resource bound derived from the reference run ({}; reference took {} loop iterations + calls)\n--- program:\n{}{}",
                b, m.steps, src, note
            ));
        }
        Caught::Done(()) => {}
    }
    if got != m.out {
        return Diff::Fail(format!(
            "output differs from the reference\n--- expected: {:?}\n--- rrss:     {:?}\n--- reference result: {:?}, rrss result: {:?}\n--- program:\n{}{}",
            m.out, got, m.result, out.err, src, note
        ));
    }
    if out.ok() != m.result.is_ok() {
        return Diff::Fail(format!(
            "outcome differs from the reference: reference {:?}, rrss {:?}\n--- output: {:?}\n--- program:\n{}{}",
            m.result, out.err, got, src, note
        ));
    }
    let digest = fnv_str(&got) ^ fnv_str(&format!("{:?}", out.err));
    Diff::Agree { model: m, src, digest, tree_differs, reading: None }
}

pub fn to_outcome(d: Diff) -> Result<(Run, String, Outcome), Outcome> {
    match d {
        Diff::Discard(w) => Err(Outcome::discard(w)),
        Diff::Fail(m) => Err(Outcome::fail(m)),
        Diff::Agree { model, src, digest, tree_differs, reading } => {
            let mut o = Outcome::pass();
            o.digest = digest;
            if let Some(r) = reading {
                // the two readings of the scope rules differ on this program; rrss behaves like this one
                o.labels.push(format!("scope_readings_differ:rrss_follows_{}", r));
            }
            if tree_differs {
                // must stay 0 on the unchanged tree (C02 reports the mismatch itself)
                o.labels.push("parsed_tree_differs_but_behaviour_agrees".into());
            }
            Ok((model, src, o))
        }
    }
}
