//! rrss AST -> mini-AST (all source positions erased).

use engine_core::ast as m;
use rrss::frontend::ast as r;

pub fn name(n: &r::VariableName) -> m::Name {
    match n {
        r::VariableName::Simple(s) => m::Name::Simple(s.0.clone()),
        r::VariableName::Common(c) => m::Name::Common(c.0.clone(), c.1.clone()),
        r::VariableName::Proper(p) => m::Name::Proper(p.0.clone()),
    }
}

pub fn ident(i: &r::Identifier) -> m::Ident {
    match i {
        r::Identifier::VariableName(n) => m::Ident::Name(name(n)),
        r::Identifier::Pronoun => m::Ident::Pronoun,
    }
}

pub fn lit(l: &r::LiteralExpression) -> m::Lit {
    match l {
        r::LiteralExpression::Mysterious => m::Lit::Mysterious,
        r::LiteralExpression::Boolean(b) => m::Lit::Bool(*b),
        r::LiteralExpression::Null => m::Lit::Null,
        r::LiteralExpression::Number(n) => m::Lit::Num(*n),
        r::LiteralExpression::String(s) => m::Lit::Str(s.clone()),
    }
}

pub fn primary(p: &r::PrimaryExpression) -> m::Primary {
    match p {
        r::PrimaryExpression::Literal(l) => m::Primary::Lit(lit(&l.0)),
        r::PrimaryExpression::Identifier(i) => m::Primary::Ident(ident(&i.0)),
        r::PrimaryExpression::ArraySubscript(a) => {
            m::Primary::Subscript(Box::new(primary(&a.array)), Box::new(primary(&a.subscript)))
        }
        r::PrimaryExpression::FunctionCall(f) => m::Primary::Call(name(&f.name.0), f.args.iter().map(expr).collect()),
        r::PrimaryExpression::ArrayPop(a) => m::Primary::Pop(Box::new(primary(&a.array))),
    }
}

pub fn binop(o: r::BinaryOperator) -> m::BinOp {
    match o {
        r::BinaryOperator::Plus => m::BinOp::Plus,
        r::BinaryOperator::Minus => m::BinOp::Minus,
        r::BinaryOperator::Multiply => m::BinOp::Multiply,
        r::BinaryOperator::Divide => m::BinOp::Divide,
        r::BinaryOperator::And => m::BinOp::And,
        r::BinaryOperator::Or => m::BinOp::Or,
        r::BinaryOperator::Nor => m::BinOp::Nor,
        r::BinaryOperator::Eq => m::BinOp::Eq,
        r::BinaryOperator::NotEq => m::BinOp::NotEq,
        r::BinaryOperator::Greater => m::BinOp::Greater,
        r::BinaryOperator::GreaterEq => m::BinOp::GreaterEq,
        r::BinaryOperator::Less => m::BinOp::Less,
        r::BinaryOperator::LessEq => m::BinOp::LessEq,
    }
}

pub fn list(l: &r::ExpressionList) -> Vec<m::Expr> {
    l.iter().map(expr).collect()
}

pub fn expr(e: &r::Expression) -> m::Expr {
    match e {
        r::Expression::PrimaryExpression(p) => m::Expr::Primary(primary(p)),
        r::Expression::BinaryExpression(b) => {
            m::Expr::Binary { op: binop(b.operator), lhs: Box::new(expr(&b.lhs)), rhs: list(&b.rhs) }
        }
        r::Expression::UnaryExpression(u) => m::Expr::Unary {
            op: match u.operator {
                r::UnaryOperator::Minus => m::UnOp::Minus,
                r::UnaryOperator::Not => m::UnOp::Not,
            },
            operand: Box::new(expr(&u.operand)),
        },
    }
}

pub fn lhs(l: &r::AssignmentLHS) -> m::Lhs {
    match l {
        r::AssignmentLHS::Identifier(i) => m::Lhs::Ident(ident(&i.0)),
        r::AssignmentLHS::ArraySubscript(a) => {
            m::Lhs::Subscript(Box::new(primary(&a.array)), Box::new(primary(&a.subscript)))
        }
    }
}

pub fn poetic(p: &r::PoeticNumberLiteral) -> Vec<m::PoeticElem> {
    p.elems
        .iter()
        .map(|e| match e {
            r::PoeticNumberLiteralElem::Word(w) => m::PoeticElem::Word(w.clone()),
            r::PoeticNumberLiteralElem::WordSuffix(w) => m::PoeticElem::Suffix(w.clone()),
            r::PoeticNumberLiteralElem::Dot => m::PoeticElem::Dot,
        })
        .collect()
}

pub fn block(b: &r::Block) -> Vec<m::Stmt> {
    match b {
        r::Block::Empty(_) => vec![],
        r::Block::NonEmpty(s) => s.iter().map(stmt).collect(),
    }
}

pub fn stmt(s: &r::Statement) -> m::Stmt {
    match s {
        r::Statement::Assignment(a) => m::Stmt::Assign {
            dest: lhs(&a.dest),
            value: match &a.value {
                r::AssignmentRHS::ExpressionList(l) => list(l),
            },
            op: a.operator.map(binop),
        },
        r::Statement::PoeticAssignment(r::PoeticAssignment::Number(p)) => m::Stmt::PoeticNum {
            dest: lhs(&p.dest),
            rhs: match &p.rhs {
                r::PoeticNumberAssignmentRHS::Expression(e) => m::PoeticRhs::Expr(expr(e)),
                r::PoeticNumberAssignmentRHS::PoeticNumberLiteral(l) => m::PoeticRhs::Literal(poetic(l)),
            },
        },
        r::Statement::PoeticAssignment(r::PoeticAssignment::String(p)) => {
            m::Stmt::PoeticStr { dest: lhs(&p.dest), text: p.rhs.clone() }
        }
        r::Statement::If(i) => {
            m::Stmt::If { cond: expr(&i.condition), then: block(&i.then_block), els: i.else_block.as_ref().map(block) }
        }
        r::Statement::While(w) => m::Stmt::While { cond: expr(&w.condition), body: block(&w.block) },
        r::Statement::Until(w) => m::Stmt::Until { cond: expr(&w.condition), body: block(&w.block) },
        r::Statement::Inc(i) => m::Stmt::Inc { dest: ident(&i.dest.0), amount: i.amount as u32 },
        r::Statement::Dec(i) => m::Stmt::Dec { dest: ident(&i.dest.0), amount: i.amount as u32 },
        r::Statement::Input(i) => m::Stmt::Input { dest: i.dest.opt().map(lhs) },
        r::Statement::Output(o) => m::Stmt::Output { value: expr(&o.value) },
        r::Statement::Mutation(mu) => m::Stmt::Mutation {
            op: match mu.operator {
                r::MutationOperator::Cut => m::MutOp::Cut,
                r::MutationOperator::Join => m::MutOp::Join,
                r::MutationOperator::Cast => m::MutOp::Cast,
            },
            operand: primary(&mu.operand),
            dest: mu.dest.as_ref().map(lhs),
            param: mu.param.as_ref().map(expr),
        },
        r::Statement::Rounding(ro) => m::Stmt::Rounding {
            dir: match ro.direction {
                r::RoundingDirection::Up => m::RoundDir::Up,
                r::RoundingDirection::Down => m::RoundDir::Down,
                r::RoundingDirection::Nearest => m::RoundDir::Nearest,
            },
            operand: expr(&ro.operand),
        },
        r::Statement::Continue(_) => m::Stmt::Continue,
        r::Statement::Break(_) => m::Stmt::Break,
        r::Statement::ArrayPush(a) => m::Stmt::Push {
            array: primary(&a.array),
            value: a.value.as_ref().map(|v| match v {
                r::ArrayPushRHS::ExpressionList(l) => m::PushRhs::List(list(l)),
                r::ArrayPushRHS::PoeticNumberLiteral(p) => m::PushRhs::Poetic(poetic(p)),
            }),
        },
        r::Statement::ArrayPop(a) => m::Stmt::Pop { array: primary(&a.expr.array), dest: a.dest.as_ref().map(lhs) },
        r::Statement::Return(re) => m::Stmt::Return { value: expr(&re.value) },
        r::Statement::Function(f) => m::Stmt::Function {
            name: name(&f.name.0),
            params: f.data.params.iter().map(|p| name(&p.0)).collect(),
            body: block(&f.data.body),
        },
        r::Statement::FunctionCall(f) => m::Stmt::Call { name: name(&f.name.0), args: f.args.iter().map(expr).collect() },
    }
}

pub fn program(p: &r::Program) -> m::Program {
    m::Program { blocks: p.code.iter().map(block).collect() }
}
