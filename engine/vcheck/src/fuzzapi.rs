//! Entry points for the coverage-guided targets in /verif/fuzz: the same generators and oracles as the
//! proptest-driven runner, driven by libFuzzer's bytes (raw text, or a choice tape for the structured generators).
//! A failing case is written as an ordinary replay file and reported with a VIOLATION line before the process aborts.

use crate::harness::{Prop, Verdict, VERIF_ROOT};
use crate::props;
use engine_core::tape::{tape_from_bytes, Tape};
use serde_json::json;
use std::path::Path;
use std::sync::Once;

static INIT: Once = Once::new();

fn init() {
    INIT.call_once(|| {
        // replaces libfuzzer-sys's abort-on-panic hook: panics inside rrss are caught and judged by the oracles
        crate::run::install_panic_hook();
    });
}

type Job = Box<dyn FnOnce() -> Verdict + Send + 'static>;

/// one persistent big-stack worker: deep chains must not overflow libFuzzer's main-thread stack.  As in the
/// proptest-driven runner, the worker is replaced by a fresh thread after anything unwound through rrss on it (the fuel
/// hooks are the harness's own; what such an unwind leaves behind is not held against rrss).
fn on_worker(job: Job) -> Verdict {
    use std::sync::mpsc::{channel, Receiver, Sender};
    use std::sync::Mutex;
    type Link = (Sender<Job>, Receiver<(Verdict, bool)>);
    static W: Mutex<Option<Link>> = Mutex::new(None);
    let mut g = W.lock().unwrap();
    if g.is_none() {
        let (jtx, jrx) = channel::<Job>();
        let (vtx, vrx) = channel::<(Verdict, bool)>();
        std::thread::Builder::new()
            .stack_size(1 << 30)
            .spawn(move || {
                for job in jrx {
                    let before = crate::run::unwinds();
                    let v = std::panic::catch_unwind(std::panic::AssertUnwindSafe(job)).unwrap_or_else(|_| Verdict::Fail("the check itself panicked".into()));
                    let retire = crate::run::unwinds() != before;
                    if vtx.send((v, retire)).is_err() || retire {
                        break;
                    }
                }
            })
            .expect("spawn worker");
        *g = Some((jtx, vrx));
    }
    let (v, retire) = {
        let link = g.as_ref().unwrap();
        link.0.send(job).expect("worker gone");
        link.1.recv().expect("worker gone")
    };
    if retire {
        *g = None;
    }
    v
}

/// true = keep in the corpus, false = reject (discarded case)
pub fn one<P: Prop + 'static>(p: P, case: P::Case, origin: &str) -> bool {
    init();
    let p = std::sync::Arc::new(p);
    let (p2, c2) = (p.clone(), case.clone());
    let verdict = on_worker(Box::new(move || p2.check(&c2).verdict));
    match verdict {
        Verdict::Pass => true,
        Verdict::Discard(_) => false,
        Verdict::Fail(msg) => {
            // does the failure need what the worker thread ran before?  (a fresh thread knows nothing)
            let (p3, c3) = (p.clone(), case.clone());
            let alone = std::thread::Builder::new().stack_size(1 << 30).spawn(move || p3.check(&c3).verdict).expect("spawn").join().ok();
            let msg = if matches!(alone, Some(Verdict::Fail(_))) {
                msg
            } else {
                format!("{}\n--- note: this case passes when it is the first thing run on a thread; it failed after the cases the fuzzing process had run before it on its worker thread, so this file alone does not reproduce it (the proptest-driven tiers report such failures with their history)", msg)
            };
            let dir = Path::new(VERIF_ROOT).join("replays").join(p.id());
            let _ = std::fs::create_dir_all(&dir);
            let body = json!({
                "property": p.id(),
                "message": msg,
                "origin": origin,
                "sample": p.sample(&case),
                "case": serde_json::to_value(&case).unwrap_or(serde_json::Value::Null),
            });
            let text = serde_json::to_string_pretty(&body).unwrap();
            let path = dir.join(format!("fuzz-{:016x}.json", crate::run::fnv(text.as_bytes())));
            let _ = std::fs::write(&path, text);
            println!("failure: {}", msg.lines().next().unwrap_or(""));
            println!("VIOLATION property={} replay={}", p.id(), path.display());
            eprintln!("VIOLATION property={} replay={}", p.id(), path.display());
            std::process::abort();
        }
    }
}

fn tape_one<P: Prop + 'static>(p: P, data: &[u8]) -> bool {
    let words = tape_from_bytes(data);
    let mut tape = Tape::new(&words);
    let case = p.generate(&mut tape);
    one(p, case, "libFuzzer tape target")
}

/// structured target: bytes -> choice tape -> the property's own generator -> its oracle
pub fn tape(prop: &str, data: &[u8]) -> bool {
    match prop {
        "C02" => tape_one(props::c02::C02, data),
        "C03" => tape_one(props::c03::C03, data),
        "C04" => tape_one(props::c04::C04, data),
        "C05" => tape_one(props::c05::C05, data),
        "C06" => tape_one(props::c06::C06, data),
        "C07" => tape_one(props::c07::C07, data),
        "C08" => tape_one(props::c08::C08, data),
        "C09" => tape_one(props::c09::C09, data),
        "C11" => tape_one(props::c11::C11, data),
        "C13" => tape_one(props::c13::C13, data),
        "C14" => tape_one(props::c14::C14, data),
        "C15" => tape_one(props::c15::C15, data),
        "C16" => tape_one(props::c16::C16, data),
        "C17" => tape_one(props::c17::C17, data),
        "C18" => tape_one(props::c18::C18, data),
        "C19" => tape_one(props::c19::C19, data),
        other => {
            eprintln!("no tape target for {}", other);
            std::process::exit(2)
        }
    }
}

pub fn text_parse(data: &[u8]) -> bool {
    let Ok(src) = std::str::from_utf8(data) else { return false };
    one(props::c01::C01, props::textgen::TextCase { src: src.to_string() }, "libFuzzer text target")
}

pub fn text_lex(data: &[u8]) -> bool {
    let Ok(src) = std::str::from_utf8(data) else { return false };
    one(props::c12::C12, props::textgen::TextCase { src: src.to_string() }, "libFuzzer text target")
}

fn split_stdin(data: &[u8]) -> (&[u8], Vec<u8>) {
    match data.iter().position(|b| *b == 0) {
        Some(i) => (&data[..i], data[i + 1..].to_vec()),
        None => (data, b"1\nabc\n\n".to_vec()),
    }
}

/// parse -> exec (C09) on raw text; standard input = whatever follows the first NUL byte
pub fn text_exec(data: &[u8]) -> bool {
    let (src, stdin) = split_stdin(data);
    let Ok(src) = std::str::from_utf8(src) else { return false };
    one(props::c09::C09, props::c09::Case::Text { src: src.to_string(), stdin }, "libFuzzer text target")
}

/// parse -> lint (C19) on raw text
pub fn text_lint(data: &[u8]) -> bool {
    let Ok(src) = std::str::from_utf8(data) else { return false };
    one(props::c19::C19, props::c19::Case::Text { src: src.to_string() }, "libFuzzer text target")
}

/// libFuzzer dictionary: every keyword alias and the punctuation / suffix fragments of the soup alphabet
pub fn dictionary() -> String {
    let mut out = String::new();
    let mut seen = std::collections::BTreeSet::new();
    for (_, aliases) in engine_core::kw::TABLE {
        for a in aliases.iter() {
            seen.insert(a.to_string());
        }
    }
    for s in ["'s", "'re", "'n'", "\n\n", "\n", "(", ")", "\"", ", and ", " at ", " taking ", " takes ", "it", "my ", "the ", "Tommy Lee", " is ", " says ", "...", "-", "1e3", "0.5", "ab1", "ä", "\r\n"] {
        seen.insert(s.to_string());
    }
    for w in seen {
        out.push('"');
        for b in w.bytes() {
            match b {
                b'"' => out.push_str("\\\""),
                b'\\' => out.push_str("\\\\"),
                0x20..=0x7e => out.push(b as char),
                _ => out.push_str(&format!("\\x{:02x}", b)),
            }
        }
        out.push_str("\"\n");
    }
    out
}
