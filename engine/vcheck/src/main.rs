use std::path::PathBuf;
use vcheck::harness::{Config, Tier};
use vcheck::props;

fn usage() -> ! {
    eprintln!(
        "usage: vcheck <C01..C20> [--tier quick|thorough] [--seed N] [--profile NAME] [--replay FILE]\n\
         \x20             [--digest-out F] [--digest-in F] [--part-in F] [--evidence F] [--threads N] [--cases N] [--dump N]"
    );
    std::process::exit(2)
}

fn main() {
    engine_core::gen::names::check_pools();
    let args: Vec<String> = std::env::args().collect();
    if args.len() < 2 {
        usage();
    }
    let id = args[1].to_uppercase();
    if id == "DICT" {
        print!("{}", vcheck::fuzzapi::dictionary());
        return;
    }
    if id == "POISON" {
        // what every interlude does when run alone on a big-stack thread
        vcheck::run::install_panic_hook();
        let lines = std::thread::Builder::new().stack_size(1 << 30).spawn(vcheck::poison::self_test).unwrap().join().unwrap();
        for l in lines {
            println!("{}", l);
        }
        return;
    }
    if id == "C10CHILD" {
        let seed: u64 = args.get(2).and_then(|s| s.parse().ok()).unwrap_or(0);
        let n: usize = args.get(3).and_then(|s| s.parse().ok()).unwrap_or(0);
        std::process::exit(props::c10::child_main(seed, n));
    }
    let mut tier = match std::env::var("VERIF_TIER").as_deref() {
        Ok("thorough") => Tier::Thorough,
        _ => Tier::Quick,
    };
    let mut seed: u64 = std::env::var("VERIF_SEED").ok().and_then(|s| s.trim().parse::<i128>().ok()).map(|v| v as u64).unwrap_or(20260926);
    let mut profile = if cfg!(debug_assertions) { "dev".to_string() } else { "release".to_string() };
    let mut replay = None;
    let mut digest_out = None;
    let mut digest_in = None;
    let mut part_in = None;
    let mut evidence: Option<PathBuf> = None;
    let mut threads = std::thread::available_parallelism().map(|n| n.get()).unwrap_or(8).min(16);
    let mut cases = None;
    let mut dump = 0usize;
    let mut strict_known = false;
    let mut i = 2;
    while i < args.len() {
        let a = args[i].as_str();
        let mut val = || {
            i += 1;
            args.get(i).cloned().unwrap_or_else(|| usage())
        };
        match a {
            "--tier" => {
                tier = match val().as_str() {
                    "quick" => Tier::Quick,
                    "thorough" => Tier::Thorough,
                    _ => usage(),
                }
            }
            "--seed" => seed = val().parse::<i128>().map(|v| v as u64).unwrap_or_else(|_| usage()),
            "--profile" => profile = val(),
            "--replay" => replay = Some(PathBuf::from(val())),
            "--digest-out" => digest_out = Some(PathBuf::from(val())),
            "--digest-in" => digest_in = Some(PathBuf::from(val())),
            "--part-in" => part_in = Some(PathBuf::from(val())),
            "--evidence" => evidence = Some(PathBuf::from(val())),
            "--threads" => threads = val().parse().unwrap_or_else(|_| usage()),
            "--cases" => cases = Some(val().parse().unwrap_or_else(|_| usage())),
            "--dump" => dump = val().parse().unwrap_or_else(|_| usage()),
            "--strict-known" => strict_known = true,
            _ => usage(),
        }
        i += 1;
    }
    let cfg = Config {
        tier,
        seed,
        profile,
        replay,
        digest_out,
        digest_in,
        part_in,
        evidence_out: evidence.unwrap_or_else(|| PathBuf::from(format!("/verif/evidence/{}.json", id))),
        threads,
        cases_override: cases,
        dump,
        strict_known,
    };
    let code = props::dispatch(&id, cfg);
    std::process::exit(code);
}

