//! Independent walk of rrss's syntax tree (public fields only) in reading order.
//! Used as the oracle for the visitor framework (C16) and the repeated-identifier lint (C19).

use rrss::frontend::ast as r;
use rrss::frontend::source_range::SourceRange;

#[derive(Clone, Debug, PartialEq)]
pub enum Ev {
    BinOp(String),
    UnOp(String),
    Lit(String),
    Pronoun,
    /// rendering, kind tag, line of the mention, is it the name of a called function?
    Name { text: String, kind: u8, line: u32, callee: bool, exact: String },
    Poetic(String),
    // mid-level "presented" events (variant B)
    Enter(&'static str),
}

pub fn name_text(n: &r::VariableName) -> (String, u8, String) {
    match n {
        r::VariableName::Simple(s) => (s.0.clone(), 0, format!("S:{}", s.0)),
        r::VariableName::Common(c) => (format!("{} {}", c.0, c.1), 1, format!("C:{}|{}", c.0, c.1)),
        r::VariableName::Proper(p) => (p.0.join(" "), 2, format!("P:{}", p.0.join("|"))),
    }
}

pub struct Walker {
    pub out: Vec<Ev>,
    pub mid: bool,
}

fn line(r: &SourceRange) -> u32 {
    r.start().line
}

impl Walker {
    pub fn new(mid: bool) -> Self {
        Walker { out: vec![], mid }
    }
    fn enter(&mut self, what: &'static str) {
        if self.mid {
            self.out.push(Ev::Enter(what));
        }
    }
    fn name(&mut self, n: &r::VariableName, range: &SourceRange, callee: bool) {
        self.enter("variable_name");
        let (text, kind, exact) = name_text(n);
        self.out.push(Ev::Name { text, kind, line: line(range), callee, exact });
    }
    fn ident(&mut self, i: &r::WithRange<r::Identifier>) {
        self.enter("identifier");
        match &i.0 {
            r::Identifier::VariableName(n) => self.name(n, &i.1, false),
            r::Identifier::Pronoun => self.out.push(Ev::Pronoun),
        }
    }
    fn lit(&mut self, l: &r::LiteralExpression) {
        self.out.push(Ev::Lit(format!("{:?}", l)));
    }
    pub fn primary(&mut self, p: &r::PrimaryExpression) {
        self.enter("primary_expression");
        match p {
            r::PrimaryExpression::Literal(l) => self.lit(&l.0),
            r::PrimaryExpression::Identifier(i) => self.ident(i),
            r::PrimaryExpression::ArraySubscript(a) => self.subscript(a),
            r::PrimaryExpression::FunctionCall(f) => self.call(f),
            r::PrimaryExpression::ArrayPop(a) => self.primary(&a.array),
        }
    }
    fn subscript(&mut self, a: &r::ArraySubscript) {
        self.primary(&a.array);
        self.primary(&a.subscript);
    }
    fn call(&mut self, f: &r::FunctionCall) {
        self.name(&f.name.0, &f.name.1, true);
        for a in &f.args {
            self.expr(a);
        }
    }
    pub fn expr(&mut self, e: &r::Expression) {
        self.enter("expression");
        match e {
            r::Expression::PrimaryExpression(p) => self.primary(p),
            r::Expression::BinaryExpression(b) => {
                self.expr(&b.lhs);
                self.out.push(Ev::BinOp(format!("{:?}", b.operator)));
                self.list(&b.rhs);
            }
            r::Expression::UnaryExpression(u) => {
                self.out.push(Ev::UnOp(format!("{:?}", u.operator)));
                self.expr(&u.operand);
            }
        }
    }
    fn list(&mut self, l: &r::ExpressionList) {
        self.expr(&l.first);
        for e in &l.rest {
            self.expr(e);
        }
    }
    fn lhs(&mut self, l: &r::AssignmentLHS) {
        self.enter("assignment_lhs");
        match l {
            r::AssignmentLHS::Identifier(i) => self.ident(i),
            r::AssignmentLHS::ArraySubscript(a) => self.subscript(a),
        }
    }
    fn poetic(&mut self, p: &r::PoeticNumberLiteral) {
        for e in &p.elems {
            self.out.push(Ev::Poetic(format!("{:?}", e)));
        }
    }
    fn block(&mut self, b: &r::Block) {
        if let r::Block::NonEmpty(stmts) = b {
            for s in stmts {
                self.stmt(s);
            }
        }
    }
    pub fn stmt(&mut self, s: &r::Statement) {
        match s {
            r::Statement::Assignment(a) => {
                self.lhs(&a.dest);
                if let Some(o) = a.operator {
                    self.out.push(Ev::BinOp(format!("{:?}", o)));
                }
                self.enter("assignment_rhs");
                match &a.value {
                    r::AssignmentRHS::ExpressionList(l) => self.list(l),
                }
            }
            r::Statement::PoeticAssignment(r::PoeticAssignment::Number(p)) => {
                self.lhs(&p.dest);
                self.enter("poetic_number_assignment_rhs");
                match &p.rhs {
                    r::PoeticNumberAssignmentRHS::Expression(e) => self.expr(e),
                    r::PoeticNumberAssignmentRHS::PoeticNumberLiteral(l) => self.poetic(l),
                }
            }
            r::Statement::PoeticAssignment(r::PoeticAssignment::String(p)) => self.lhs(&p.dest),
            r::Statement::If(i) => {
                self.expr(&i.condition);
                self.block(&i.then_block);
                if let Some(e) = &i.else_block {
                    self.block(e);
                }
            }
            r::Statement::While(w) => {
                self.expr(&w.condition);
                self.block(&w.block);
            }
            r::Statement::Until(w) => {
                self.expr(&w.condition);
                self.block(&w.block);
            }
            r::Statement::Inc(i) => self.ident(&i.dest),
            r::Statement::Dec(i) => self.ident(&i.dest),
            r::Statement::Input(i) => {
                if let Some(d) = i.dest.opt() {
                    self.lhs(d);
                }
            }
            r::Statement::Output(o) => self.expr(&o.value),
            r::Statement::Mutation(m) => {
                self.primary(&m.operand);
                if let Some(d) = &m.dest {
                    self.lhs(d);
                }
                if let Some(p) = &m.param {
                    self.expr(p);
                }
            }
            r::Statement::Rounding(ro) => self.expr(&ro.operand),
            r::Statement::Continue(_) | r::Statement::Break(_) => {}
            r::Statement::ArrayPush(a) => {
                self.primary(&a.array);
                if let Some(v) = &a.value {
                    self.enter("array_push_rhs");
                    match v {
                        r::ArrayPushRHS::ExpressionList(l) => self.list(l),
                        r::ArrayPushRHS::PoeticNumberLiteral(p) => self.poetic(p),
                    }
                }
            }
            r::Statement::ArrayPop(a) => {
                self.primary(&a.expr.array);
                if let Some(d) = &a.dest {
                    self.lhs(d);
                }
            }
            r::Statement::Return(re) => self.expr(&re.value),
            r::Statement::Function(f) => {
                self.name(&f.name.0, &f.name.1, false);
                for p in &f.data.params {
                    self.name(&p.0, &p.1, false);
                }
                self.block(&f.data.body);
            }
            r::Statement::FunctionCall(f) => self.call(f),
        }
    }
    pub fn program(&mut self, p: &r::Program) {
        for b in &p.code {
            self.block(b);
        }
    }
}
