//! Surface renderer: mini-AST -> Rockstar source text.  Every free choice
//! (keyword alias, letter case, optional words, separators, noise, comments,
//! layout) is taken from a spelling tape; an empty tape gives the canonical text.

use crate::ast::*;
use crate::kw::{self, Kw};
use crate::tape::Tape;
use std::collections::BTreeSet;

#[derive(Clone, Copy, Debug)]
pub struct RenderOpts {
    pub alias: bool,
    pub case: bool,
    pub noise: bool,
    pub comments: bool,
    pub layout: bool,
    /// allow "\r\n"
    pub crlf: bool,
}

impl RenderOpts {
    pub const CANONICAL: RenderOpts =
        RenderOpts { alias: false, case: false, noise: false, comments: false, layout: false, crlf: false };
    pub const ALL: RenderOpts =
        RenderOpts { alias: true, case: true, noise: true, comments: true, layout: true, crlf: true };
    /// aliases, case and optional words, but no noise characters/comments: lines stay predictable
    pub const CLEAN: RenderOpts =
        RenderOpts { alias: true, case: true, noise: false, comments: false, layout: true, crlf: false };
}

#[derive(Clone, Debug, Default)]
pub struct RenderStats {
    pub aliases: BTreeSet<&'static str>,
    pub comment: bool,
    pub multiline_comment: bool,
    pub noise: bool,
    pub case_changed: bool,
    pub crlf: bool,
    pub glued_suffix: bool,
    pub noncanonical_choices: u32,
    /// line (1-based) on which each statement starts, in pre-order
    pub stmt_lines: Vec<u32>,
    /// byte offset of the first token of each statement, in pre-order
    pub stmt_offsets: Vec<usize>,
    /// block nesting depth of each statement (0 = top level)
    pub stmt_depths: Vec<u32>,
    /// line on which the first line break after the statement's first token is written (= last line of a simple statement)
    pub stmt_end_lines: Vec<u32>,
    /// line on which the right-hand side (value / value list) of an assignment-like statement starts; 0 = none recorded
    pub stmt_rhs_lines: Vec<u32>,
}

#[derive(Clone, Debug)]
pub struct Rendered {
    pub text: String,
    pub stats: RenderStats,
}

#[derive(Copy, Clone, PartialEq, Eq, Debug)]
enum Last {
    None,
    /// word-like token (identifier word or keyword): `'s` can be glued on in any case
    Word,
    Number,
    Str,
    Sym,
    Comment,
}

struct R<'a> {
    out: String,
    sp: Tape<'a>,
    o: RenderOpts,
    st: RenderStats,
    last: Last,
    line: u32,
    at_line_start: bool,
    force_dash: bool,
    pending: Option<usize>,
    pending_rhs: Option<usize>,
    depth: u32,
    open_stmts: Vec<usize>,
}

const NOISE_CHARS: &[&str] = &["!", "?", ";", ":", "[", "]", "{", "}", "#", "$", "%", "@", "^", "|", "~", "=", ")", "\\", "`"];
const COMMENTS: &[&str] = &[
    "(comment)",
    "(say 5)",
    "()",
    "( if x is 5 )",
    "(multi\nline)",
    "(\"quoted\")",
    "(ünï çödé)",
    "(a, b & c. 1.5)",
    "(else\n\nwhile)",
    "(closed on its own line\n)",
    "(\n)",
    "(\nnote\n\n)",
    "(dos line\r\n)",
];

pub fn render(p: &Program, spelling: &[u32], opts: RenderOpts) -> Rendered {
    let mut r = R {
        out: String::new(),
        sp: Tape::new_cyclic(spelling),
        o: opts,
        st: RenderStats::default(),
        last: Last::None,
        line: 1,
        at_line_start: true,
        force_dash: false,
        pending: None,
        pending_rhs: None,
        depth: 0,
        open_stmts: vec![],
    };
    r.program(p);
    Rendered { text: r.out, stats: r.st }
}

pub fn render_canonical(p: &Program) -> String {
    render(p, &[], RenderOpts::CANONICAL).text
}

pub fn render_expr_canonical(e: &Expr) -> String {
    let mut r = R {
        out: String::new(),
        sp: Tape::new(&[]),
        o: RenderOpts::CANONICAL,
        st: RenderStats::default(),
        last: Last::None,
        line: 1,
        at_line_start: true,
        force_dash: false,
        pending: None,
        pending_rhs: None,
        depth: 0,
        open_stmts: vec![],
    };
    r.expr(e);
    r.out
}

fn recase(word: &str, mode: usize, sp: &mut Tape) -> String {
    match mode {
        0 => word.to_string(),
        1 => {
            let mut c = word.chars();
            match c.next() {
                Some(f) => f.to_ascii_uppercase().to_string() + c.as_str(),
                None => String::new(),
            }
        }
        2 => word.to_ascii_uppercase(),
        _ => word
            .chars()
            .map(|c| if sp.chance(1, 2) { c.to_ascii_uppercase() } else { c })
            .collect(),
    }
}

impl<'a> R<'a> {
    fn choice(&mut self, enabled: bool, n: usize) -> usize {
        if !enabled || n <= 1 {
            return 0;
        }
        let c = self.sp.pick(n);
        if c != 0 {
            self.st.noncanonical_choices += 1;
        }
        c
    }

    /// called right before the text of a token is written
    fn tok(&mut self) {
        if let Some(i) = self.pending.take() {
            self.st.stmt_lines[i] = self.line;
            self.st.stmt_offsets[i] = self.out.len();
        }
        if let Some(i) = self.pending_rhs.take() {
            self.st.stmt_rhs_lines[i] = self.line;
        }
    }

    fn push_raw(&mut self, s: &str) {
        self.line += s.matches('\n').count() as u32;
        self.out.push_str(s);
    }

    /// whitespace / noise between two tokens (or at the start of a line)
    fn gap(&mut self, need_space: bool) {
        let mut wrote_space = false;
        if self.o.noise || self.o.comments {
            // up to three noise items
            let mut budget = 3;
            while budget > 0 {
                budget -= 1;
                let kind = {
                    let w: [u32; 5] = [
                        40,
                        if self.o.noise { 3 } else { 0 },
                        if self.o.noise { 2 } else { 0 },
                        if self.o.noise { 3 } else { 0 },
                        if self.o.comments { 3 } else { 0 },
                    ];
                    self.sp.weighted(&w)
                };
                match kind {
                    0 => break,
                    1 => {
                        self.push_raw("  ");
                        wrote_space = true;
                        self.st.noise = true;
                    }
                    2 => {
                        let ws = *self.sp.choose(&["\t", "\u{a0}", " \t ", "\u{2003}"]);
                        self.push_raw(ws);
                        wrote_space = true;
                        self.st.noise = true;
                    }
                    3 => {
                        let mut c = *self.sp.choose(NOISE_CHARS);
                        // `<=` / `>=` must not be created by gluing
                        if c == "=" && (self.out.ends_with('<') || self.out.ends_with('>')) {
                            c = "!";
                        }
                        if !wrote_space {
                            self.push_raw(" ");
                        }
                        self.push_raw(c);
                        self.push_raw(" ");
                        wrote_space = true;
                        self.st.noise = true;
                        self.last = Last::Sym;
                    }
                    _ => {
                        let c = *self.sp.choose(COMMENTS);
                        if !wrote_space {
                            self.push_raw(" ");
                        }
                        self.push_raw(c);
                        self.push_raw(" ");
                        wrote_space = true;
                        self.st.comment = true;
                        if c.contains('\n') {
                            self.st.multiline_comment = true;
                        }
                        self.last = Last::Comment;
                    }
                }
                self.st.noncanonical_choices += 1;
            }
        }
        if need_space && !wrote_space {
            self.push_raw(" ");
        }
    }

    /// gap in front of a word-like token
    fn pre(&mut self) {
        let need = !self.at_line_start;
        // a word directly after a symbol may be glued (`1+x`), everything else needs a blank
        let need = if need && self.last == Last::Sym && self.choice(self.o.layout, 4) == 3 { false } else { need };
        self.gap(need);
        self.at_line_start = false;
    }

    fn word(&mut self, w: &str) {
        self.pre();
        self.tok();
        self.push_raw(w);
        self.last = Last::Word;
    }

    fn kw_from(&mut self, aliases: &[&'static str]) {
        self.pre();
        let a = aliases[self.choice(self.o.alias, aliases.len())];
        self.st.aliases.insert(a);
        let mode = self.choice(self.o.case, 4);
        let text = recase(a, mode, &mut self.sp);
        if text != a {
            self.st.case_changed = true;
        }
        self.tok();
        self.push_raw(&text);
        self.last = Last::Word;
    }

    fn kw(&mut self, k: Kw) {
        self.kw_from(kw::aliases(k));
    }

    /// symbolic token; may be glued to its neighbours
    fn sym(&mut self, s: &'static str) {
        let need = !self.at_line_start && !(self.choice(self.o.layout, 3) == 2);
        self.gap(need);
        self.at_line_start = false;
        // never glue `.` or digits-sensitive symbols onto a number
        if (s == "." || s == "-") && self.last == Last::Number && !self.out.ends_with(' ') {
            self.push_raw(" ");
        }
        self.tok();
        self.push_raw(s);
        self.st.aliases.insert(s);
        self.last = Last::Sym;
    }

    fn number(&mut self, v: f64) {
        self.pre();
        // a number must not be glued to a preceding `.` (it would join the numeral)
        if self.out.ends_with('.') {
            self.push_raw(" ");
        }
        let canon = if v.is_infinite() { "1e999".to_string() } else { format!("{}", v) };
        let mut text = canon.clone();
        match self.choice(self.o.layout, 6) {
            1 => {
                if !canon.contains('.') && !canon.contains('e') {
                    text = format!("{}.0", canon)
                }
            }
            2 => text = format!("0{}", canon),
            3 => {
                if let Some(rest) = canon.strip_prefix("0.") {
                    text = format!(".{}", rest)
                }
            }
            4 => {
                if !canon.contains('.') && !canon.contains('e') {
                    text = format!("{}.", canon)
                }
            }
            5 => {
                let e = format!("{:e}", v);
                if !e.contains("e-") && !e.contains("inf") {
                    text = e
                }
            }
            _ => {}
        }
        if text.parse::<f64>().map(|x| x.to_bits()) != Ok(v.to_bits()) {
            text = canon;
        }
        self.tok();
        self.push_raw(&text);
        self.last = Last::Number;
    }

    fn string(&mut self, s: &str) {
        if s.is_empty() && self.choice(self.o.alias, 2) == 1 {
            self.kw(Kw::Empty);
            return;
        }
        self.pre();
        self.tok();
        self.push_raw("\"");
        self.push_raw(s);
        self.push_raw("\"");
        self.st.aliases.insert("\"\"");
        self.last = Last::Str;
    }

    fn name(&mut self, n: &Name) {
        for w in n.words() {
            self.word(w);
        }
    }

    fn ident(&mut self, i: &Ident) {
        match i {
            Ident::Name(n) => self.name(n),
            Ident::Pronoun => self.kw(Kw::Pronoun),
        }
    }

    /// `is` / `are` / ... or a glued `'s` / `'re`
    fn is_token(&mut self) {
        let can_glue = matches!(self.last, Last::Word | Last::Number | Last::Str)
            && !self.out.ends_with(|c: char| c.is_whitespace())
            && !self.out.ends_with('\'');
        if can_glue && self.o.alias {
            let c = self.choice(true, 8);
            if c >= 6 {
                let word_like = self.last == Last::Word;
                let s: &'static str = if c == 6 {
                    if word_like && self.choice(self.o.case, 2) == 1 {
                        "'S"
                    } else {
                        "'s"
                    }
                } else if word_like {
                    ["'re", "'RE", "'Re", "'rE"][self.choice(self.o.case, 4)]
                } else {
                    "'re"
                };
                // now and then a comment sits between the word and its suffix (`Tommy (the hero)'s 5`): the suffix hangs on
                // the comment (decided by a hash of the spelling tape and the position: consumes no choice)
                let s = if self.o.comments && (self.sp.content_hash() ^ self.out.len() as u64) % 5 == 0 {
                    self.push_raw(if self.out.len() % 2 == 0 { " (the hero)" } else { "(c)" });
                    self.st.comment = true;
                    // (only a suffix glued to a word may be spelled in upper case)
                    if c == 6 {
                        "'s"
                    } else {
                        "'re"
                    }
                } else {
                    s
                };
                self.push_raw(s);
                self.st.aliases.insert(if c == 6 { "'s" } else { "'re" });
                self.st.glued_suffix = true;
                // treat as a symbol: nothing may be glued onto it
                self.last = Last::Sym;
                // a following token needs a blank
                self.push_raw(" ");
                return;
            }
        }
        self.kw(Kw::Is);
    }

    fn binop_token(&mut self, op: BinOp) {
        match op {
            BinOp::Plus => match self.choice(self.o.alias, 3) {
                0 => self.sym("+"),
                1 => self.kw(Kw::Plus),
                _ => self.kw(Kw::With),
            },
            BinOp::Minus => match self.choice(self.o.alias, 3) {
                0 => self.sym("-"),
                1 => self.kw_from(&["minus"]),
                _ => self.kw_from(&["without"]),
            },
            BinOp::Multiply => match self.choice(self.o.alias, 3) {
                0 => self.sym("*"),
                1 => self.kw_from(&["times"]),
                _ => self.kw_from(&["of"]),
            },
            BinOp::Divide => match self.choice(self.o.alias, 3) {
                0 => self.sym("/"),
                1 => self.kw_from(&["over"]),
                _ => self.kw_from(&["between"]),
            },
            BinOp::And => self.kw(Kw::And),
            BinOp::Or => self.kw(Kw::Or),
            BinOp::Nor => self.kw(Kw::Nor),
            _ => unreachable!("comparison operators are rendered by cmp_chain"),
        }
    }

    fn list(&mut self, es: &[Expr]) {
        for (i, e) in es.iter().enumerate() {
            if i > 0 {
                self.sym(",");
                if self.choice(self.o.layout, 3) == 2 {
                    self.kw(Kw::And);
                }
            }
            self.expr(e);
        }
    }

    fn cmp_chain(&mut self, e: &Expr) {
        // collect the left spine of comparison operators
        let mut links: Vec<(BinOp, &Vec<Expr>)> = Vec::new();
        let mut cur = e;
        while let Expr::Binary { op, lhs, rhs } = cur {
            if op.level() != 1 {
                break;
            }
            links.push((*op, rhs));
            cur = lhs;
        }
        links.reverse();
        let must_is = links.iter().any(|(op, _)| *op == BinOp::Eq);
        let must_sym = links.iter().any(|(_, rhs)| rhs.len() > 1);
        let is_mode = if must_is {
            true
        } else if must_sym {
            false
        } else {
            self.choice(self.o.alias, 2) == 1
        };
        self.expr(cur);
        for (op, rhs) in links {
            if is_mode {
                self.is_token();
                match op {
                    BinOp::Eq => {}
                    BinOp::NotEq => self.kw(Kw::Not),
                    BinOp::Greater => {
                        self.kw(Kw::Bigger);
                        self.kw(Kw::Than)
                    }
                    BinOp::Less => {
                        self.kw(Kw::Smaller);
                        self.kw(Kw::Than)
                    }
                    BinOp::GreaterEq => {
                        self.kw(Kw::As);
                        self.kw(Kw::Big);
                        self.kw(Kw::As)
                    }
                    BinOp::LessEq => {
                        self.kw(Kw::As);
                        self.kw(Kw::Small);
                        self.kw(Kw::As)
                    }
                    _ => unreachable!(),
                }
                self.expr(&rhs[0]);
            } else {
                match op {
                    BinOp::NotEq => self.kw(Kw::Isnt),
                    BinOp::Greater => self.sym(">"),
                    BinOp::GreaterEq => self.sym(">="),
                    BinOp::Less => self.sym("<"),
                    BinOp::LessEq => self.sym("<="),
                    _ => unreachable!(),
                }
                self.list(rhs);
            }
        }
    }

    fn expr(&mut self, e: &Expr) {
        match e {
            Expr::Primary(p) => self.primary(p),
            Expr::Unary { op, operand } => {
                match op {
                    UnOp::Not => self.kw(Kw::Not),
                    UnOp::Minus => {
                        if self.force_dash {
                            self.force_dash = false;
                            self.pre();
                            self.tok();
                            self.push_raw("-");
                            self.last = Last::Sym;
                        } else {
                            match self.choice(self.o.alias, 3) {
                                0 => {
                                    // never glue a unary minus onto a preceding symbol-less word
                                    self.pre();
                                    self.tok();
                                    self.push_raw("-");
                                    self.st.aliases.insert("-");
                                    self.last = Last::Sym;
                                }
                                1 => self.kw_from(&["minus"]),
                                _ => self.kw_from(&["without"]),
                            }
                        }
                    }
                }
                self.expr(operand)
            }
            Expr::Binary { op, lhs, rhs } => {
                if op.level() == 1 {
                    self.cmp_chain(e)
                } else {
                    self.expr(lhs);
                    self.binop_token(*op);
                    self.list(rhs);
                }
            }
        }
    }

    fn arg_sep(&mut self) {
        match self.choice(self.o.layout, 5) {
            0 => self.sym(","),
            1 => {
                self.sym(",");
                self.kw(Kw::And)
            }
            2 => self.kw(Kw::And),
            3 => self.sym("&"),
            _ => {
                // 'n' needs blanks around it
                self.gap(true);
                self.push_raw("'n'");
                self.push_raw(" ");
                self.st.aliases.insert("'n'");
                self.last = Last::Sym;
            }
        }
    }

    fn primary(&mut self, p: &Primary) {
        self.force_dash = false;
        match p {
            Primary::Lit(l) => match l {
                Lit::Mysterious => self.kw(Kw::Mysterious),
                Lit::Null => self.kw(Kw::Null),
                Lit::Bool(true) => self.kw(Kw::True),
                Lit::Bool(false) => self.kw(Kw::False),
                Lit::Num(v) => self.number(*v),
                Lit::Str(s) => self.string(s),
            },
            Primary::Ident(i) => self.ident(i),
            Primary::Subscript(a, i) => {
                self.primary(a);
                self.kw(Kw::At);
                self.primary(i);
            }
            Primary::Call(n, args) => {
                self.name(n);
                self.kw(Kw::Taking);
                for (k, a) in args.iter().enumerate() {
                    if k > 0 {
                        self.arg_sep();
                    }
                    self.expr(a);
                }
            }
            Primary::Pop(p) => {
                self.kw(Kw::Roll);
                self.primary(p);
            }
        }
    }

    fn lhs(&mut self, l: &Lhs) {
        match l {
            Lhs::Ident(i) => self.ident(i),
            Lhs::Subscript(a, i) => {
                self.primary(a);
                self.kw(Kw::At);
                self.primary(i);
            }
        }
    }

    fn poetic(&mut self, elems: &[PoeticElem]) {
        // can an apostrophe suffix be glued onto what was written last?
        let mut glue_ok = false;
        let mut first = true;
        for e in elems {
            let glued_suffix = matches!(e, PoeticElem::Suffix(s) if !s.starts_with('-'));
            // commas are dropped by the parser: sprinkle them anywhere except in front of a glued suffix
            if !(glued_suffix && glue_ok) && self.choice(self.o.layout, 8) == 7 {
                self.sym(",");
                glue_ok = false;
            }
            match e {
                PoeticElem::Word(w) => {
                    self.gap(true);
                    self.tok();
                    self.push_raw(w);
                    self.last = Last::Word;
                    glue_ok = true;
                }
                PoeticElem::Suffix(s) => {
                    if let Some(rest) = s.strip_prefix('-') {
                        let form = if first { 1 } else { self.choice(self.o.layout, 4) };
                        self.tok();
                        match form {
                            0 => {
                                if !glue_ok {
                                    self.push_raw(" ");
                                }
                                self.push_raw("-");
                                self.push_raw(rest)
                            }
                            1 => {
                                self.push_raw(" - ");
                                self.push_raw(rest)
                            }
                            2 => {
                                self.push_raw(" -");
                                self.push_raw(rest)
                            }
                            _ => {
                                if !glue_ok {
                                    self.push_raw(" ");
                                }
                                self.push_raw("- ");
                                self.push_raw(rest)
                            }
                        }
                        glue_ok = true;
                    } else {
                        if !glue_ok {
                            // an apostrophe suffix needs a token to hang on: a comment will do
                            self.push_raw(" (c)");
                            self.st.comment = true;
                        }
                        self.tok();
                        self.push_raw(s);
                        self.st.glued_suffix = true;
                        // a second suffix cannot be glued onto this one (`x's're` is one word)
                        glue_ok = false;
                    }
                    self.last = Last::Word;
                }
                PoeticElem::Dot => {
                    if self.choice(self.o.layout, 2) == 1 {
                        self.push_raw(" ");
                    }
                    self.tok();
                    self.push_raw(".");
                    self.last = Last::Sym;
                    glue_ok = false;
                }
            }
            first = false;
        }
    }

    /// end of a line; `tail` says which optional terminators cannot be absorbed
    fn eol(&mut self, comma_ok: bool, dot_ok: bool, raw: bool) {
        if !raw {
            match self.choice(self.o.layout, 8) {
                6 if comma_ok => self.sym(","),
                7 if dot_ok => {
                    // keep the dot away from a number
                    if self.last == Last::Number {
                        self.push_raw(" ");
                    }
                    self.sym(".")
                }
                _ => {}
            }
            self.gap(false);
            if self.o.crlf && self.choice(true, 6) == 5 {
                self.push_raw("\r");
                self.st.crlf = true;
            }
        }
        for i in std::mem::take(&mut self.open_stmts) {
            self.st.stmt_end_lines[i] = self.line;
        }
        self.push_raw("\n");
        self.at_line_start = true;
        self.last = Last::None;
    }

    /// a line without tokens
    fn blank_line(&mut self) {
        self.gap(false);
        if self.o.crlf && self.choice(true, 6) == 5 {
            self.push_raw("\r");
            self.st.crlf = true;
        }
        self.push_raw("\n");
        self.at_line_start = true;
        self.last = Last::None;
    }

    fn block(&mut self, b: &[Stmt]) {
        if b.is_empty() {
            self.blank_line();
        } else {
            self.depth += 1;
            for s in b {
                self.stmt(s, false);
            }
            self.depth -= 1;
        }
    }

    /// `no_close`: an `if … else` that ends a function body shares its closing blank line
    fn stmt(&mut self, s: &Stmt, no_close: bool) {
        // leading indentation is free
        if self.choice(self.o.layout, 6) == 5 {
            self.push_raw("  ");
        }
        // the statement starts on the line of its first token, not of leading comments
        let line_idx = self.st.stmt_lines.len();
        self.st.stmt_lines.push(0);
        self.st.stmt_offsets.push(0);
        self.st.stmt_depths.push(self.depth);
        self.st.stmt_end_lines.push(0);
        self.st.stmt_rhs_lines.push(0);
        self.open_stmts.push(line_idx);
        self.pending = Some(line_idx);
        match s {
            Stmt::Assign { dest, value, op } => {
                let can_put = op.is_none() && value.len() == 1;
                let must_put = can_put && value[0].starts_with_minus();
                let use_put = must_put || (can_put && self.choice(self.o.layout, 2) == 0);
                if use_put {
                    self.kw(Kw::Put);
                    self.mark_line(line_idx);
                    self.pending_rhs = Some(line_idx);
                    self.expr(&value[0]);
                    self.kw(Kw::Into);
                    self.lhs(dest);
                    let comma_ok = match dest {
                        Lhs::Ident(_) => true,
                        Lhs::Subscript(_, i) => !i.ends_in_call(),
                    };
                    self.eol(comma_ok, true, false);
                } else {
                    self.kw(Kw::Let);
                    self.mark_line(line_idx);
                    self.lhs(dest);
                    self.kw(Kw::Be);
                    if let Some(op) = op {
                        match op {
                            BinOp::Plus | BinOp::Minus | BinOp::Multiply | BinOp::Divide => self.binop_token(*op),
                            _ => unreachable!("compound operator must be arithmetic"),
                        }
                    }
                    self.pending_rhs = Some(line_idx);
                    self.list(value);
                    // `let` takes an expression list: a trailing comma would continue it
                    self.eol(false, true, false);
                }
            }
            Stmt::PoeticNum { dest, rhs } => {
                self.lhs(dest);
                self.mark_line(line_idx);
                self.is_token();
                match rhs {
                    PoeticRhs::Expr(e) => {
                        self.force_dash = e.starts_with_minus();
                        self.pending_rhs = Some(line_idx);
                        self.expr(e);
                        self.force_dash = false;
                        self.eol(!e.absorbs_comma(), true, false);
                    }
                    PoeticRhs::Literal(elems) => {
                        self.poetic(elems);
                        self.eol(false, false, false);
                    }
                }
            }
            Stmt::PoeticStr { dest, text } => {
                self.lhs(dest);
                self.mark_line(line_idx);
                let c = self.choice(self.o.alias, 3);
                self.kw_from(&[["says", "said", "say"][c]]);
                self.push_raw(" ");
                self.push_raw(text);
                self.eol(false, false, true);
            }
            Stmt::If { cond, then, els } => {
                self.kw(Kw::If);
                self.mark_line(line_idx);
                self.expr(cond);
                self.eol(!cond.absorbs_comma(), true, false);
                self.block(then);
                if let Some(e) = els {
                    self.kw(Kw::Else);
                    self.eol(false, false, false);
                    self.block(e);
                }
                if !no_close {
                    self.blank_line();
                }
            }
            Stmt::While { cond, body } | Stmt::Until { cond, body } => {
                self.kw(if matches!(s, Stmt::While { .. }) { Kw::While } else { Kw::Until });
                self.mark_line(line_idx);
                self.expr(cond);
                self.eol(!cond.absorbs_comma(), true, false);
                self.block(body);
                self.blank_line();
            }
            Stmt::Inc { dest, amount } | Stmt::Dec { dest, amount } => {
                let inc = matches!(s, Stmt::Inc { .. });
                self.kw(if inc { Kw::Build } else { Kw::Knock });
                self.mark_line(line_idx);
                self.ident(dest);
                for k in 0..*amount {
                    if k > 0 && self.choice(self.o.layout, 2) == 1 {
                        self.sym(",");
                    }
                    self.kw(if inc { Kw::Up } else { Kw::Down });
                }
                self.eol(true, true, false);
            }
            Stmt::Input { dest } => {
                self.kw(Kw::Listen);
                self.mark_line(line_idx);
                match dest {
                    Some(d) => {
                        self.kw(Kw::To);
                        self.lhs(d);
                        let comma_ok = match d {
                            Lhs::Ident(_) => true,
                            Lhs::Subscript(_, i) => !i.ends_in_call(),
                        };
                        self.eol(comma_ok, true, false);
                    }
                    None => self.eol(true, true, false),
                }
            }
            Stmt::Output { value } => {
                if self.choice(self.o.alias, 2) == 0 {
                    self.kw(Kw::Say)
                } else {
                    self.kw(Kw::SayAlias)
                }
                self.mark_line(line_idx);
                self.expr(value);
                self.eol(!value.absorbs_comma(), true, false);
            }
            Stmt::Mutation { op, operand, dest, param } => {
                self.kw(match op {
                    MutOp::Cut => Kw::Cut,
                    MutOp::Join => Kw::Join,
                    MutOp::Cast => Kw::Cast,
                });
                self.mark_line(line_idx);
                self.primary(operand);
                let mut comma_ok = !operand.ends_in_call();
                if let Some(d) = dest {
                    self.kw(Kw::Into);
                    self.lhs(d);
                    comma_ok = match d {
                        Lhs::Ident(_) => true,
                        Lhs::Subscript(_, i) => !i.ends_in_call(),
                    };
                }
                if let Some(p) = param {
                    self.kw(Kw::With);
                    self.expr(p);
                    comma_ok = !p.absorbs_comma();
                }
                self.eol(comma_ok, true, false);
            }
            Stmt::Rounding { dir, operand } => {
                self.kw(Kw::Turn);
                self.mark_line(line_idx);
                let leading = self.choice(self.o.layout, 2) == 0;
                if leading {
                    self.dir(*dir);
                    self.expr(operand);
                    self.eol(!operand.absorbs_comma(), true, false);
                } else {
                    self.expr(operand);
                    self.dir(*dir);
                    self.eol(true, true, false);
                }
            }
            Stmt::Continue => {
                if self.choice(self.o.layout, 2) == 0 {
                    self.kw(Kw::Continue);
                    self.mark_line(line_idx);
                } else {
                    self.kw(Kw::Take);
                    self.mark_line(line_idx);
                    self.kw_from(&["it"]);
                    self.kw(Kw::To);
                    self.kw_from(&["the"]);
                    self.kw(Kw::Top);
                }
                self.eol(true, true, false);
            }
            Stmt::Break => {
                self.kw(Kw::Break);
                self.mark_line(line_idx);
                if self.choice(self.o.layout, 2) == 1 {
                    self.kw_from(&["it"]);
                    self.kw(Kw::Down);
                }
                self.eol(true, true, false);
            }
            Stmt::Push { array, value } => {
                self.kw(Kw::Rock);
                self.mark_line(line_idx);
                self.primary(array);
                match value {
                    None => self.eol(!array.ends_in_call(), true, false),
                    Some(PushRhs::List(es)) => {
                        self.kw(Kw::With);
                        self.pending_rhs = Some(line_idx);
                        self.list(es);
                        self.eol(false, true, false);
                    }
                    Some(PushRhs::Poetic(elems)) => {
                        self.kw(Kw::Like);
                        self.poetic(elems);
                        self.eol(false, false, false);
                    }
                }
            }
            Stmt::Pop { array, dest } => {
                self.kw(Kw::Roll);
                self.mark_line(line_idx);
                self.primary(array);
                match dest {
                    None => self.eol(!array.ends_in_call(), true, false),
                    Some(d) => {
                        self.kw(Kw::Into);
                        self.lhs(d);
                        let comma_ok = match d {
                            Lhs::Ident(_) => true,
                            Lhs::Subscript(_, i) => !i.ends_in_call(),
                        };
                        self.eol(comma_ok, true, false);
                    }
                }
            }
            Stmt::Return { value } => {
                // give [back] E [back] | return E [back] | send E [back]
                let form = self.choice(self.o.layout, 6);
                match form {
                    0 | 1 | 2 => self.kw_from(&["give"]),
                    3 | 4 => self.kw_from(&["return"]),
                    _ => self.kw_from(&["send"]),
                }
                self.mark_line(line_idx);
                if form == 0 {
                    self.kw(Kw::Back);
                }
                self.expr(value);
                let trailing_back = matches!(form, 1 | 4) || (form == 5 && self.choice(self.o.layout, 2) == 1);
                if trailing_back {
                    self.kw(Kw::Back);
                    self.eol(true, true, false);
                } else {
                    self.eol(!value.absorbs_comma(), true, false);
                }
            }
            Stmt::Function { name, params, body } => {
                self.name(name);
                self.mark_line(line_idx);
                self.kw(Kw::Takes);
                for (k, p) in params.iter().enumerate() {
                    if k > 0 {
                        self.arg_sep();
                    }
                    self.name(p);
                }
                self.eol(false, true, false);
                if body.is_empty() {
                    self.blank_line();
                    self.blank_line();
                } else {
                    let n = body.len();
                    self.depth += 1;
                    for (k, st) in body.iter().enumerate() {
                        let terminator = matches!(st, Stmt::If { els: Some(_), .. });
                        debug_assert!(!terminator || k == n - 1, "if/else must end a function body");
                        self.stmt(st, terminator && k == n - 1);
                    }
                    self.depth -= 1;
                    self.blank_line();
                }
            }
            Stmt::Call { name, args } => {
                self.name(name);
                self.mark_line(line_idx);
                self.kw(Kw::Taking);
                for (k, a) in args.iter().enumerate() {
                    if k > 0 {
                        self.arg_sep();
                    }
                    self.expr(a);
                }
                self.eol(false, true, false);
            }
        }
    }

    fn mark_line(&mut self, _idx: usize) {
        // the line is recorded by `tok()` when the first token of the statement is written
        debug_assert!(self.pending.is_none());
    }

    fn dir(&mut self, d: RoundDir) {
        match d {
            RoundDir::Up => self.kw(Kw::Up),
            RoundDir::Down => self.kw(Kw::Down),
            RoundDir::Nearest => self.kw(Kw::Round),
        }
    }

    fn program(&mut self, p: &Program) {
        let n = p.blocks.len();
        for (k, b) in p.blocks.iter().enumerate() {
            // extra blank lines between top-level blocks are free, by the hundred too (some holding blanks or a tab):
            // whatever counts blocks, lines or nesting must not mistake them for something
            // (decided by a hash of the spelling tape, so that the other decisions keep their places on it)
            let h = self.sp.content_hash();
            if self.o.layout && h % 80 == 79 && (h >> 8) as usize % n == k {
                let lines = [130usize, 270, 1040, 2100][(h >> 20) as usize % 4];
                for i in 0..lines {
                    self.push_raw(if i % 7 == 3 { " \n" } else if i % 11 == 5 { "\t\n" } else { "\n" });
                }
                self.at_line_start = true;
                self.last = Last::None;
                self.st.noncanonical_choices += 1;
            }
            for _ in 0..3 {
                if self.choice(self.o.layout, 5) != 4 {
                    break;
                }
                self.blank_line();
            }
            for s in b {
                self.stmt(s, false);
            }
            if k + 1 < n {
                self.blank_line();
            }
        }
        // trailing blank lines / missing final newline
        match self.choice(self.o.layout, 4) {
            2 => self.blank_line(),
            3 => {
                if self.out.ends_with('\n') && !self.out.ends_with("\n\n") {
                    // dropping the final newline is only safe when the last line is not blank
                    let trimmed = self.out.trim_end_matches('\n').len();
                    if self.out.len() - trimmed == 1 && !self.out.ends_with("\r\n") {
                        self.out.pop();
                    }
                }
            }
            _ => {}
        }
    }
}
