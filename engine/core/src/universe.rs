//! The value universe used by the exhaustive sweeps (C03, C14): every kind and
//! every boundary the coercions inspect, each with statements that build it.

use crate::ast::*;
use crate::model::{self, Limits, V};

#[derive(Clone, Debug, serde::Serialize, serde::Deserialize)]
pub struct UVal {
    pub label: String,
    /// statements that leave the value in variable `var` (may use scratch variables `tmpa`, `tmpb`)
    pub build: Vec<BuildStep>,
}

#[derive(Clone, Debug, serde::Serialize, serde::Deserialize)]
pub enum BuildStep {
    Put(Expr),
    PushNone,
    Push(Vec<Expr>),
    SetKey(Lit, Expr),
    /// build a scratch array from the values and push it as one element
    PushArrayOf(Vec<Expr>),
    /// take the first element off (and drop it)
    Roll,
}

fn neg(e: Expr) -> Expr {
    un(UnOp::Minus, e)
}

pub fn universe() -> Vec<UVal> {
    use BuildStep::*;
    let u = |label: &str, build| UVal { label: label.to_string(), build };
    let n = num;
    let s = strlit;
    vec![
        u("mysterious", vec![Put(lit(Lit::Mysterious))]),
        u("null", vec![Put(lit(Lit::Null))]),
        u("true", vec![Put(lit(Lit::Bool(true)))]),
        u("false", vec![Put(lit(Lit::Bool(false)))]),
        u("0", vec![Put(n(0.0))]),
        u("-0", vec![Put(bin(BinOp::Multiply, n(0.0), neg(n(1.0))))]),
        u("1", vec![Put(n(1.0))]),
        u("-1", vec![Put(neg(n(1.0)))]),
        u("0.5", vec![Put(n(0.5))]),
        u("2", vec![Put(n(2.0))]),
        u("-5", vec![Put(neg(n(5.0)))]),
        u("3.7", vec![Put(n(3.7))]),
        u("65", vec![Put(n(65.0))]),
        u("1e300", vec![Put(n(1e300))]),
        u("1e-17", vec![Put(n(1e-17))]),
        u("5e-324", vec![Put(n(5e-324))]),
        u("2^53", vec![Put(n(9007199254740992.0))]),
        u("NaN", vec![Put(bin(BinOp::Divide, n(0.0), n(0.0)))]),
        u("inf", vec![Put(bin(BinOp::Divide, n(1.0), n(0.0)))]),
        u("-inf", vec![Put(bin(BinOp::Divide, neg(n(1.0)), n(0.0)))]),
        u("''", vec![Put(s(""))]),
        u("'abc'", vec![Put(s("abc"))]),
        u("'abd'", vec![Put(s("abd"))]),
        u("'ab'", vec![Put(s("ab"))]),
        u("'5'", vec![Put(s("5"))]),
        u("'5.0'", vec![Put(s("5.0"))]),
        u("' 5'", vec![Put(s(" 5"))]),
        u("'0'", vec![Put(s("0"))]),
        u("'-1'", vec![Put(s("-1"))]),
        u("'1e3'", vec![Put(s("1e3"))]),
        u("'2'", vec![Put(s("2"))]),
        u("'true'", vec![Put(s("true"))]),
        u("'false'", vec![Put(s("false"))]),
        u("'null'", vec![Put(s("null"))]),
        u("'mysterious'", vec![Put(s("mysterious"))]),
        u("'NaN'", vec![Put(s("NaN"))]),
        u("'inf'", vec![Put(s("inf"))]),
        // number syntax at its edges: letter case of the non-finite spellings, signs, bare points, an exponent out of range,
        // whole numbers past 2^53 and past 2^64
        u("'Infinity'", vec![Put(s("Infinity"))]),
        u("'-INF'", vec![Put(s("-INF"))]),
        u("'1e400'", vec![Put(s("1e400"))]),
        u("'+5'", vec![Put(s("+5"))]),
        u("'.5'", vec![Put(s(".5"))]),
        u("'5.'", vec![Put(s("5."))]),
        u("'9007199254740993'", vec![Put(s("9007199254740993"))]),
        u("'18446744073709551616'", vec![Put(s("18446744073709551616"))]),
        u("'ünï'", vec![Put(s("ünï"))]),
        // a character from U+E000..U+FFFF and one beyond U+FFFF: their order differs between code points and UTF-16 units
        u("'Ａ'", vec![Put(s("Ａ"))]),
        u("'🎸'", vec![Put(s("🎸"))]),
        u("[]", vec![PushNone]),
        u("[1]", vec![Push(vec![n(1.0)])]),
        u("[1,2]", vec![Push(vec![n(1.0), n(2.0)])]),
        u("[1,2]b", vec![Push(vec![n(1.0)]), Push(vec![n(2.0)])]),
        // the same elements as [1,2], arrived at through a queue that was filled, emptied from the front and filled again
        // (wherever the elements sit in their storage, the value is the same)
        u("[1,2]q", vec![Push(vec![n(7.0), n(7.0), n(7.0), n(1.0)]), Roll, Roll, Roll, Push(vec![n(2.0)])]),
        u("[1,2]r", vec![Push(vec![n(7.0), n(1.0), n(2.0)]), Roll]),
        u("['a']", vec![Push(vec![s("a")])]),
        u("[mysterious]", vec![Push(vec![lit(Lit::Mysterious)])]),
        u("[NaN]", vec![Push(vec![bin(BinOp::Divide, n(0.0), n(0.0))])]),
        u("[[1],[2]]", vec![PushArrayOf(vec![n(1.0)]), PushArrayOf(vec![n(2.0)])]),
        u("{k:1}", vec![SetKey(Lit::Str("k".into()), n(1.0))]),
        u("[1]{true:'x'}", vec![Push(vec![n(1.0)]), SetKey(Lit::Bool(true), s("x"))]),
    ]
}

impl UVal {
    pub fn stmts(&self, var: &Name, scratch: &Name) -> Vec<Stmt> {
        let mut out = Vec::new();
        for b in &self.build {
            match b {
                BuildStep::Put(e) => out.push(put(e.clone(), var)),
                BuildStep::PushNone => out.push(Stmt::Push { array: pvar(var), value: None }),
                BuildStep::Push(es) => out.push(Stmt::Push { array: pvar(var), value: Some(PushRhs::List(es.clone())) }),
                BuildStep::SetKey(k, e) => out.push(Stmt::Assign {
                    dest: Lhs::Subscript(Box::new(pvar(var)), Box::new(Primary::Lit(k.clone()))),
                    value: vec![e.clone()],
                    op: None,
                }),
                BuildStep::Roll => out.push(Stmt::Pop { array: pvar(var), dest: None }),
                BuildStep::PushArrayOf(es) => {
                    // scratch starts as a fresh array each time: assign mysterious, then push
                    out.push(put(lit(Lit::Mysterious), scratch));
                    out.push(Stmt::Push { array: pvar(scratch), value: Some(PushRhs::List(es.clone())) });
                    out.push(Stmt::Push { array: pvar(var), value: Some(PushRhs::List(vec![var_expr(scratch)])) });
                }
            }
        }
        out
    }

    /// the model's value of this universe member
    pub fn value(&self) -> V {
        eval_build(self)
    }
}

fn var_expr(n: &Name) -> Expr {
    var(n)
}

fn eval_build(u: &UVal) -> V {
    let lim = Limits::default();
    let mut cur = V::Myst;
    let ev = |e: &Expr| -> V { eval_closed(e) };
    for b in &u.build {
        match b {
            BuildStep::Put(e) => cur = ev(e),
            BuildStep::PushNone => model::push(&mut cur, vec![], &lim).unwrap(),
            BuildStep::Push(es) => model::push(&mut cur, es.iter().map(|e| ev(e)).collect(), &lim).unwrap(),
            BuildStep::SetKey(k, e) => {
                let kv = eval_closed(&lit(k.clone()));
                let val = ev(e);
                *model::index_or_insert(&mut cur, &kv, &lim).unwrap() = val;
            }
            BuildStep::Roll => {
                model::pop(&mut cur).unwrap();
            }
            BuildStep::PushArrayOf(es) => {
                let mut inner = V::Myst;
                model::push(&mut inner, es.iter().map(|e| ev(e)).collect(), &lim).unwrap();
                model::push(&mut cur, vec![inner], &lim).unwrap();
            }
        }
    }
    cur
}

/// evaluate an expression without variables
pub fn eval_closed(e: &Expr) -> V {
    let lim = Limits::default();
    match e {
        Expr::Primary(Primary::Lit(l)) => match l {
            Lit::Mysterious => V::Myst,
            Lit::Null => V::Null,
            Lit::Bool(b) => V::Bool(*b),
            Lit::Num(n) => V::Num(*n),
            Lit::Str(s) => V::Str(s.clone()),
        },
        Expr::Unary { op: UnOp::Minus, operand } => model::negate(&eval_closed(operand)).unwrap(),
        Expr::Unary { op: UnOp::Not, operand } => V::Bool(!model::truthy(&eval_closed(operand))),
        Expr::Binary { op, lhs, rhs } => {
            let mut acc = eval_closed(lhs);
            for r in rhs {
                let b = eval_closed(r);
                acc = match op {
                    BinOp::Plus => model::plus(&acc, &b, &lim).unwrap(),
                    BinOp::Minus => model::minus(&acc, &b),
                    BinOp::Multiply => model::times(&acc, &b, &lim).unwrap(),
                    BinOp::Divide => model::over(&acc, &b),
                    _ => panic!("universe expressions are arithmetic"),
                };
            }
            acc
        }
        _ => panic!("universe expressions are closed"),
    }
}

/// the three probe lines that separate all six kinds: `say X`, `say X plus 1`, `say "" plus X`
pub fn probe(e: Expr) -> Vec<Stmt> {
    vec![say(e.clone()), say(bin(BinOp::Plus, e.clone(), num(1.0))), say(bin(BinOp::Plus, strlit(""), e))]
}
