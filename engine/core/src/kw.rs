//! Keyword table transcribed from rrss's `KEYWORDS` (src/frontend/lexer.rs).

#[derive(Copy, Clone, Debug, PartialEq, Eq, Hash, PartialOrd, Ord)]
pub enum Kw {
    Mysterious,
    Null,
    True,
    False,
    Empty,
    Pronoun,
    Plus,
    Minus,
    Multiply,
    Divide,
    Into,
    Is,
    Isnt,
    Says,
    Bigger,
    Smaller,
    Big,
    Small,
    SayAlias,
    Cut,
    Join,
    Cast,
    Round,
    Takes,
    Return,
    With,
    Put,
    Let,
    Be,
    And,
    Or,
    Nor,
    Not,
    As,
    Than,
    If,
    Else,
    While,
    Until,
    Build,
    Knock,
    Up,
    Down,
    Say,
    Listen,
    To,
    Turn,
    Continue,
    Break,
    Take,
    Top,
    Rock,
    Roll,
    At,
    Like,
    Taking,
    Back,
    CommonPrefix,
}

pub const TABLE: &[(Kw, &[&str])] = &[
    (Kw::Mysterious, &["mysterious"]),
    (Kw::Null, &["null", "nothing", "nowhere", "nobody", "gone"]),
    (Kw::True, &["true", "right", "yes", "ok"]),
    (Kw::False, &["false", "wrong", "no", "lies"]),
    (Kw::Empty, &["empty", "silent", "silence"]),
    (
        Kw::Pronoun,
        &["it", "he", "she", "him", "her", "they", "them", "ze", "hir", "zie", "zir", "xe", "xem", "ve", "ver"],
    ),
    (Kw::Plus, &["plus"]),
    (Kw::Minus, &["minus", "without"]),
    (Kw::Multiply, &["times", "of"]),
    (Kw::Divide, &["over", "between"]),
    (Kw::Into, &["into", "in"]),
    (Kw::Is, &["is", "are", "was", "were"]),
    (
        Kw::Isnt,
        &["isnt", "isn't", "aint", "ain't", "arent", "aren't", "wasnt", "wasn't", "werent", "weren't"],
    ),
    (Kw::Says, &["says", "said"]),
    (Kw::Bigger, &["bigger", "higher", "greater", "stronger"]),
    (Kw::Smaller, &["smaller", "lower", "less", "weaker"]),
    (Kw::Big, &["big", "high", "great", "strong"]),
    (Kw::Small, &["small", "low", "little", "weak"]),
    (Kw::SayAlias, &["shout", "whisper", "scream"]),
    (Kw::Cut, &["cut", "split", "shatter"]),
    (Kw::Join, &["join", "unite"]),
    (Kw::Cast, &["cast", "burn"]),
    (Kw::Round, &["round", "around"]),
    (Kw::Takes, &["takes", "wants"]),
    (Kw::Return, &["give", "return", "send"]),
    (Kw::With, &["with"]),
    (Kw::Put, &["put"]),
    (Kw::Let, &["let"]),
    (Kw::Be, &["be"]),
    (Kw::And, &["and"]),
    (Kw::Or, &["or"]),
    (Kw::Nor, &["nor"]),
    (Kw::Not, &["not"]),
    (Kw::As, &["as"]),
    (Kw::Than, &["than"]),
    (Kw::If, &["if"]),
    (Kw::Else, &["else"]),
    (Kw::While, &["while"]),
    (Kw::Until, &["until"]),
    (Kw::Build, &["build"]),
    (Kw::Knock, &["knock"]),
    (Kw::Up, &["up"]),
    (Kw::Down, &["down"]),
    (Kw::Say, &["say"]),
    (Kw::Listen, &["listen"]),
    (Kw::To, &["to"]),
    (Kw::Turn, &["turn"]),
    (Kw::Continue, &["continue"]),
    (Kw::Break, &["break"]),
    (Kw::Take, &["take"]),
    (Kw::Top, &["top"]),
    (Kw::Rock, &["rock"]),
    (Kw::Roll, &["roll"]),
    (Kw::At, &["at"]),
    (Kw::Like, &["like"]),
    (Kw::Taking, &["taking"]),
    (Kw::Back, &["back"]),
    (Kw::CommonPrefix, &["a", "an", "the", "my", "your", "our"]),
];

pub fn aliases(k: Kw) -> &'static [&'static str] {
    TABLE.iter().find(|(kk, _)| *kk == k).map(|(_, a)| *a).unwrap()
}

pub fn lookup(word: &str) -> Option<Kw> {
    let lc = word.to_lowercase();
    TABLE.iter().find(|(_, a)| a.contains(&lc.as_str())).map(|(k, _)| *k)
}

pub fn is_keyword(word: &str) -> bool {
    lookup(word).is_some()
}

pub fn all_aliases() -> Vec<&'static str> {
    TABLE.iter().flat_map(|(_, a)| a.iter().copied()).collect()
}

/// Literal words: a poetic number right-hand side starting with one of these is an expression.
pub fn is_literal_word(word: &str) -> bool {
    matches!(lookup(word), Some(Kw::Mysterious | Kw::Null | Kw::True | Kw::False | Kw::Empty))
}
