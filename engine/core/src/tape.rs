//! Choice tape: every random decision of the generators and of the renderer is
//! decoded from a `Vec<u32>` produced (and shrunk) by proptest, or decoded from
//! fuzzer bytes.  Value 0 / tape exhausted always selects the simplest choice.

#[derive(Clone, Debug)]
pub struct Tape<'a> {
    data: &'a [u32],
    pos: usize,
    cyclic: bool,
}

impl<'a> Tape<'a> {
    pub fn new(data: &'a [u32]) -> Self {
        Tape { data, pos: 0, cyclic: false }
    }
    /// wraps around instead of running dry (an empty tape still yields zeros)
    pub fn new_cyclic(data: &'a [u32]) -> Self {
        Tape { data, pos: 0, cyclic: true }
    }
    /// a hash of the whole tape (consumes nothing): for decisions added later that must not shift the existing ones
    pub fn content_hash(&self) -> u64 {
        let mut h = 0xcbf29ce484222325u64;
        for w in self.data {
            h = (h ^ *w as u64).wrapping_mul(0x100000001b3);
        }
        h ^ (h >> 29)
    }
    pub fn exhausted(&self) -> bool {
        self.pos >= self.data.len() && !(self.cyclic && !self.data.is_empty())
    }
    pub fn used(&self) -> usize {
        self.pos.min(self.data.len())
    }
    pub fn raw(&mut self) -> u32 {
        let v = if self.cyclic && !self.data.is_empty() {
            // decorrelate successive laps a little
            let lap = (self.pos / self.data.len()) as u32;
            self.data[self.pos % self.data.len()].rotate_left(lap % 32)
        } else {
            self.data.get(self.pos).copied().unwrap_or(0)
        };
        self.pos += 1;
        v
    }
    /// uniform in 0..n, monotone in the tape value (0 -> 0)
    pub fn pick(&mut self, n: usize) -> usize {
        if n <= 1 {
            // still consume nothing: keeps the tape aligned with real choices only
            return 0;
        }
        ((self.raw() as u64 * n as u64) >> 32) as usize
    }
    /// true with probability num/den; false on an exhausted tape
    pub fn chance(&mut self, num: u32, den: u32) -> bool {
        let r = ((self.raw() as u64 * den as u64) >> 32) as u32;
        r >= den - num.min(den)
    }
    /// index into weights; lower indices for lower tape values (index 0 on exhaustion)
    pub fn weighted(&mut self, weights: &[u32]) -> usize {
        let total: u64 = weights.iter().map(|w| *w as u64).sum();
        if total == 0 {
            return 0;
        }
        let mut r = (self.raw() as u64 * total) >> 32;
        for (i, w) in weights.iter().enumerate() {
            if r < *w as u64 {
                return i;
            }
            r -= *w as u64;
        }
        weights.len() - 1
    }
    pub fn range(&mut self, lo: i64, hi: i64) -> i64 {
        debug_assert!(lo <= hi);
        lo + self.pick((hi - lo + 1) as usize) as i64
    }
    pub fn choose<'b, T>(&mut self, items: &'b [T]) -> &'b T {
        &items[self.pick(items.len())]
    }
}

/// Decode fuzzer bytes into a tape (4 bytes per choice, little endian; a trailing
/// partial word is zero-extended).
pub fn tape_from_bytes(bytes: &[u8]) -> Vec<u32> {
    bytes
        .chunks(4)
        .map(|c| {
            let mut b = [0u8; 4];
            b[..c.len()].copy_from_slice(c);
            u32::from_le_bytes(b)
        })
        .collect()
}
