pub mod ast;
pub mod gen;
pub mod kw;
pub mod model;
pub mod render;
pub mod tape;
pub mod universe;

pub fn snippets() -> &'static [String] {
    use std::sync::OnceLock;
    static S: OnceLock<Vec<String>> = OnceLock::new();
    S.get_or_init(|| serde_json::from_str(include_str!("../../../corpus/snippets.json")).expect("snippets.json"))
}
