pub mod names;
pub mod soup;
pub mod syntax;
pub mod values;
