pub mod flow;
pub mod funcs;
pub mod names;
pub mod soup;
pub mod syntax;
pub mod values;
