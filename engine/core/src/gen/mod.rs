pub mod soup;
