//! Constant / non-constant expression generators for the folder and lint checks (C17, C18).

use super::syntax::NUMS;
use crate::ast::*;
use crate::tape::Tape;

/// a leaf of a non-constant expression
pub type UnknownLeaf<'f> = &'f mut dyn FnMut(&mut Tape) -> Primary;

fn cnum(t: &mut Tape) -> Expr {
    let v = match t.weighted(&[55, 25, 20]) {
        0 => *t.choose(&[0.0, 1.0, 2.0, 3.0, 5.0, 7.0, 10.0, 100.0, 20.0, 101.0, 1000000.0]),
        1 => *t.choose(&[0.5, 0.25, 3.14, 0.1, 1.5, 2.75, 0.001, 10.01, 100.5]),
        _ => *t.choose(NUMS),
    };
    num(v)
}

fn cunary(t: &mut Tape, d: usize, leaf: &mut Option<UnknownLeaf>) -> Expr {
    if d > 0 && t.chance(1, 6) {
        let inner = cunary(t, d - 1, leaf);
        return un(UnOp::Minus, inner);
    }
    if let Some(l) = leaf {
        if t.chance(1, 3) {
            return Expr::Primary(l(t));
        }
    }
    cnum(t)
}

fn clist(t: &mut Tape, d: usize, next: fn(&mut Tape, usize, &mut Option<UnknownLeaf>, bool) -> Expr, leaf: &mut Option<UnknownLeaf>, no_lists: bool) -> Vec<Expr> {
    let n = if no_lists || d == 0 { 1 } else { 1 + t.weighted(&[75, 18, 7]) };
    if n == 1 {
        return vec![next(t, d, leaf, no_lists)];
    }
    let mut v: Vec<Expr> = vec![];
    for _ in 0..n - 1 {
        let e = cunary(t, d.saturating_sub(1), leaf);
        // a non-last element must not end in a call
        let e = if e.ends_in_call() { cnum(t) } else { e };
        v.push(e);
    }
    v.push(next(t, d, leaf, true));
    v
}

fn cfactor(t: &mut Tape, d: usize, leaf: &mut Option<UnknownLeaf>, no_lists: bool) -> Expr {
    let mut e = cunary(t, d, leaf);
    let links = if d == 0 { 0 } else { t.weighted(&[55, 35, 10]) };
    for _ in 0..links {
        let op = *t.choose(&[BinOp::Multiply, BinOp::Divide]);
        let rhs = clist(t, d - 1, |t, d, l, _| cunary(t, d, l), leaf, no_lists);
        e = Expr::Binary { op, lhs: Box::new(e), rhs };
    }
    e
}

fn cterm(t: &mut Tape, d: usize, leaf: &mut Option<UnknownLeaf>, no_lists: bool) -> Expr {
    let mut e = cfactor(t, d, leaf, no_lists);
    let links = if d == 0 { 0 } else { t.weighted(&[45, 40, 15]) };
    for _ in 0..links {
        let op = *t.choose(&[BinOp::Plus, BinOp::Minus]);
        let rhs = clist(t, d - 1, cfactor, leaf, no_lists);
        e = Expr::Binary { op, lhs: Box::new(e), rhs };
    }
    e
}

/// built solely from number literals, unary minus and + - * / (list operands included)
pub fn constant_expr(t: &mut Tape, depth: usize) -> Expr {
    cterm(t, depth, &mut None, false)
}

/// same shape, with at least one leaf that reads something
pub fn unknown_expr(t: &mut Tape, depth: usize, leaf: UnknownLeaf) -> Expr {
    for _ in 0..6 {
        let mut l: Option<UnknownLeaf> = Some(&mut *leaf);
        let e = cterm(t, depth, &mut l, false);
        if !is_constant_shape(&e) && e.validate_ok() {
            return e;
        }
    }
    let p = leaf(t);
    let p = if p.ends_in_call() { Primary::Ident(Ident::Pronoun) } else { p };
    bin(BinOp::Plus, Expr::Primary(p), num(1.0))
}

/// a constant expression with a few leaves perturbed: `not` stacked one to three deep, other literal kinds, numeric
/// strings.  Whether the folder reports anything for these is free; what it reports must be what execution yields.
pub fn near_constant_expr(t: &mut Tape, depth: usize) -> Expr {
    fn perturb(e: Expr, t: &mut Tape, left: &mut u32) -> Expr {
        match e {
            Expr::Primary(Primary::Lit(Lit::Num(n))) => {
                if *left > 0 && t.chance(1, 3) {
                    *left -= 1;
                    let x = num(n);
                    match t.pick(8) {
                        0 => un(UnOp::Not, x),
                        1 => un(UnOp::Not, un(UnOp::Not, x)),
                        2 => un(UnOp::Not, un(UnOp::Not, un(UnOp::Not, x))),
                        3 => un(UnOp::Minus, un(UnOp::Not, x)),
                        4 => lit(Lit::Bool(true)),
                        5 => strlit("5"),
                        6 => lit(Lit::Null),
                        _ => un(UnOp::Not, un(UnOp::Minus, x)),
                    }
                } else {
                    num(n)
                }
            }
            Expr::Unary { op, operand } => Expr::Unary { op, operand: Box::new(perturb(*operand, t, left)) },
            Expr::Binary { op, lhs, rhs } => Expr::Binary { op, lhs: Box::new(perturb(*lhs, t, left)), rhs: rhs.into_iter().map(|r| perturb(r, t, left)).collect() },
            other => other,
        }
    }
    for _ in 0..4 {
        let mut left = 1 + t.pick(2) as u32;
        let e = perturb(constant_expr(t, depth), t, &mut left);
        if !is_constant_shape(&e) && e.validate_ok() {
            return e;
        }
    }
    un(UnOp::Not, un(UnOp::Not, num(5.0)))
}

pub fn is_constant_shape(e: &Expr) -> bool {
    match e {
        Expr::Primary(Primary::Lit(Lit::Num(_))) => true,
        Expr::Primary(_) => false,
        Expr::Unary { op: UnOp::Minus, operand } => is_constant_shape(operand),
        Expr::Unary { .. } => false,
        Expr::Binary { op, lhs, rhs } => op.is_arith() && is_constant_shape(lhs) && rhs.iter().all(is_constant_shape),
    }
}

/// independent IEEE evaluation of a constant-shaped expression
pub fn constant_value(e: &Expr) -> Option<f64> {
    match e {
        Expr::Primary(Primary::Lit(Lit::Num(n))) => Some(*n),
        Expr::Primary(_) => None,
        Expr::Unary { op: UnOp::Minus, operand } => constant_value(operand).map(|v| -v),
        Expr::Unary { .. } => None,
        Expr::Binary { op, lhs, rhs } => {
            if !op.is_arith() {
                return None;
            }
            let mut acc = constant_value(lhs)?;
            for r in rhs {
                let b = constant_value(r)?;
                acc = match op {
                    BinOp::Plus => acc + b,
                    BinOp::Minus => acc - b,
                    BinOp::Multiply => acc * b,
                    BinOp::Divide => acc / b,
                    _ => unreachable!(),
                };
            }
            Some(acc)
        }
    }
}

impl Expr {
    pub fn validate_ok(&self) -> bool {
        validate_expr(self, 0).is_ok()
    }
}
