//! C10 generator: programs aimed at the places where hash-table order could leak.

use super::names;
use super::values::gen_string;
use crate::ast::*;
use crate::tape::Tape;

fn sub(a: &Name, k: Lit) -> Lhs {
    Lhs::Subscript(Box::new(pvar(a)), Box::new(Primary::Lit(k)))
}

pub struct DictOut {
    pub prog: Program,
    pub keys: usize,
}

pub fn gen_dict_program(t: &mut Tape) -> DictOut {
    let n = names::distinct(t, 4);
    let (x, y, d, z) = (n[0].clone(), n[1].clone(), n[2].clone(), n[3].clone());
    let mut s: Vec<Stmt> = vec![];
    // 2-6 non-numeric keys
    let mut keys: Vec<Lit> = vec![];
    let pool: Vec<Lit> = vec![
        Lit::Str("b".into()),
        Lit::Str("a".into()),
        Lit::Str("c".into()),
        Lit::Str("key".into()),
        Lit::Str("".into()),
        Lit::Str("ünï".into()),
        Lit::Str("zz".into()),
        Lit::Bool(true),
        Lit::Bool(false),
        Lit::Null,
        Lit::Mysterious,
        Lit::Str("0".into()),
        Lit::Str("k2".into()),
        // keys that look like numbers next to keys that do not (an order that mixes two criteria is not an order)
        Lit::Str("2".into()),
        Lit::Str("10".into()),
        Lit::Str("1st".into()),
        Lit::Str("9".into()),
        Lit::Str("21".into()),
        Lit::Str("2nd".into()),
        Lit::Str("3".into()),
        // long keys (fixed-size key buffers, truncated sort keys): they differ only at the far end
        Lit::Str(format!("{}a", "k".repeat(70))),
        Lit::Str(format!("{}b", "k".repeat(70))),
        Lit::Str(format!("{}c", "k".repeat(130))),
        Lit::Str(format!("{}x", "ü".repeat(40))),
        Lit::Str(format!("{}y", "ü".repeat(40))),
    ];
    let nk = 2 + t.weighted(&[28, 26, 16, 10, 6, 3, 3, 3, 3, 2]);
    // one dictionary in 25 is big: 30-70 keys (past whatever small-table size, growth step or bucket count there is)
    let big = t.chance(1, 25);
    let mut pool = pool;
    let nk = if big {
        for i in 0..70 {
            pool.push(Lit::Str(format!("key{}{}", (b'a' + (i % 26) as u8) as char, i / 26)));
        }
        30 + t.pick(41)
    } else {
        nk
    };
    while keys.len() < nk {
        let k = pool[t.pick(pool.len())].clone();
        if !keys.contains(&k) {
            keys.push(k);
        } else if t.exhausted() {
            let k = pool[keys.len() % pool.len()].clone();
            if !keys.contains(&k) {
                keys.push(k);
            } else {
                break;
            }
        }
    }
    // sequence part
    let ns = t.weighted(&[40, 30, 20, 10]);
    if ns > 0 {
        let es: Vec<Expr> = (0..ns).map(|i| strlit(&format!("s{}", i))).collect();
        s.push(Stmt::Push { array: pvar(&x), value: Some(PushRhs::List(es)) });
    }
    // which values are not strings: none (half of the programs), one, or an independent choice per key — a failing
    // join must name the same offender every time even when several distinct ones sit in the dictionary part
    let mode = t.weighted(&[50, 15, 35]);
    let one_at = t.pick(keys.len());
    for (i, k) in keys.iter().enumerate() {
        let non_string = match mode {
            0 => false,
            1 => i == one_at,
            _ => t.chance(1, 2),
        };
        let v = if non_string {
            match t.pick(5) {
                0 | 1 => num(i as f64 + 1.0),
                2 => lit(Lit::Bool(i % 2 == 0)),
                3 => lit(Lit::Null),
                _ => num(0.5 + i as f64),
            }
        } else {
            // now and then the same value under several keys (an entry must be told from another by its key)
            if mode == 0 && t.chance(1, 4) {
                strlit("same")
            } else {
                strlit(&format!("v{}{}", i, gen_string(t).chars().filter(|c| c.is_alphanumeric()).take(3).collect::<String>()))
            }
        };
        s.push(Stmt::Assign { dest: sub(&x, k.clone()), value: vec![v], op: None });
    }
    // a copy built in another insertion order
    let mut rev = keys.clone();
    rev.reverse();
    if ns > 0 {
        let es: Vec<Expr> = (0..ns).map(|i| strlit(&format!("s{}", i))).collect();
        s.push(Stmt::Push { array: pvar(&y), value: Some(PushRhs::List(es)) });
    }
    for k in &rev {
        s.push(Stmt::Assign {
            dest: sub(&y, k.clone()),
            value: vec![Expr::Primary(Primary::Subscript(Box::new(pvar(&x)), Box::new(Primary::Lit(k.clone()))))],
            op: None,
        });
    }
    let n_ops = 1 + t.pick(4);
    for _ in 0..n_ops {
        match t.weighted(&[40, 10, 10, 8, 8, 8, 8, 8, 10]) {
            8 => {
                // roll (nothing to take when the list part is empty, one element otherwise), then every keyed entry by name
                s.push(Stmt::Pop { array: pvar(&x), dest: Some(Lhs::Ident(Ident::Name(d.clone()))) });
                s.push(say(var(&d)));
                for k in &keys {
                    s.push(say(bin(BinOp::Plus, strlit("@"), Expr::Primary(Primary::Subscript(Box::new(pvar(&x)), Box::new(Primary::Lit(k.clone())))))));
                }
            }
            0 => {
                let param = match t.pick(3) {
                    0 => None,
                    1 => Some(strlit(",")),
                    _ => Some(strlit("--")),
                };
                s.push(Stmt::Mutation { op: MutOp::Join, operand: pvar(&x), dest: Some(Lhs::Ident(Ident::Name(d.clone()))), param });
                s.push(say(var(&d)));
            }
            1 => s.push(say(bin(BinOp::Eq, var(&x), var(&y)))),
            2 => s.push(say(var(&x))),
            3 => s.push(say(bin(BinOp::Less, var(&x), var(&y)))),
            4 => s.push(Stmt::Mutation { op: MutOp::Cut, operand: pvar(&x), dest: Some(Lhs::Ident(Ident::Name(d.clone()))), param: None }),
            5 => s.push(say(Expr::Primary(Primary::Subscript(Box::new(pvar(&z)), Box::new(pvar(&x)))))),
            6 => {
                s.push(Stmt::Mutation { op: MutOp::Join, operand: pvar(&y), dest: None, param: None });
                s.push(say(var(&y)));
            }
            _ => {
                // an array holding the dictionary as an element, then an error that renders it
                s.push(Stmt::Push { array: pvar(&z), value: Some(PushRhs::List(vec![var(&x)])) });
                s.push(Stmt::Rounding { dir: RoundDir::Up, operand: var(&z) });
            }
        }
    }
    DictOut { prog: Program::single(s), keys: keys.len() }
}
