//! C04 generator: nested if/else, while, until, break, continue, markers, counters.

use super::names;
use super::values::gen_uval;
use crate::ast::*;
use crate::tape::Tape;

pub struct FlowGen<'t, 'a> {
    pub t: &'t mut Tape<'a>,
    counters: Vec<Name>,
    vals: Vec<Name>,
    scratch: Name,
    marker: u32,
    budget: i32,
    pub continue_last: bool,
    pub error_stmt: bool,
    /// a queue of numbers (rolled by side-effecting conditions), a ticking function and its global counter
    queue: Name,
    tick: Name,
    ticks: Name,
    /// names that are never initialised at top level: first assigned inside whatever block gets there first
    locals: Vec<Name>,
    pub side_effect_cond: bool,
}

impl<'t, 'a> FlowGen<'t, 'a> {
    pub fn new(t: &'t mut Tape<'a>) -> Self {
        let n = names::distinct(t, 8);
        FlowGen {
            t,
            counters: n[0..4].to_vec(),
            vals: n[4..7].to_vec(),
            scratch: n[7].clone(),
            marker: 0,
            budget: 28,
            continue_last: false,
            error_stmt: false,
            queue: Name::Simple("flowqueue".into()),
            tick: Name::Simple("Ticker".into()),
            ticks: Name::Simple("ticks".into()),
            locals: vec![Name::Simple("blocklocal".into()), Name::Common("the".into(), "blocklocal".into()), Name::Proper(vec!["Block".into(), "Local".into()])],
            side_effect_cond: false,
        }
    }

    fn mark(&mut self) -> Stmt {
        self.marker += 1;
        say(strlit(&format!("m{}", self.marker)))
    }

    fn any_lit(&mut self) -> Expr {
        match self.t.pick(9) {
            0 => lit(Lit::Bool(true)),
            1 => lit(Lit::Bool(false)),
            2 => num(0.0),
            3 => num(1.0),
            4 => strlit(""),
            5 => strlit("x"),
            6 => lit(Lit::Null),
            7 => lit(Lit::Mysterious),
            _ => num(0.5),
        }
    }

    fn cond(&mut self, loop_level: usize) -> Expr {
        let v = self.vals[self.t.pick(self.vals.len())].clone();
        let w = self.vals[self.t.pick(self.vals.len())].clone();
        match self.t.weighted(&[20, 10, 8, 8, 8, 16, 6, 6, 5, 5, 8, 8]) {
            10 => {
                // a logical operator with a list of operands: folded left like any list, `(v nor w) nor u`
                let u = self.vals[self.t.pick(self.vals.len())].clone();
                let op = *self.t.choose(&[BinOp::Nor, BinOp::Nor, BinOp::And, BinOp::Or]);
                let mut rhs = vec![var(&w), var(&u)];
                if self.t.chance(1, 3) {
                    rhs.push(self.any_lit());
                }
                Expr::Binary { op, lhs: Box::new(var(&v)), rhs }
            }
            11 => {
                // a value of whatever kind ordered against a number: a runtime error for the kinds that have no order
                let op = *self.t.choose(&[BinOp::Less, BinOp::LessEq, BinOp::Greater, BinOp::GreaterEq]);
                bin(op, var(&v), num(self.t.pick(4) as f64))
            }
            8 => {
                // a condition that makes progress by itself: the head of the queue, removed by the test
                self.side_effect_cond = true;
                Expr::Primary(Primary::Pop(Box::new(pvar(&self.queue.clone()))))
            }
            9 => {
                // a call that prints, counts and answers "fewer than k ticks so far"
                self.side_effect_cond = true;
                Expr::Primary(Primary::Call(self.tick.clone(), vec![num(1.0 + self.t.pick(4) as f64)]))
            }
            0 => var(&v),
            1 => un(UnOp::Not, var(&v)),
            2 => bin(BinOp::And, var(&v), var(&w)),
            3 => bin(BinOp::Or, var(&v), var(&w)),
            4 => bin(BinOp::Eq, var(&v), var(&w)),
            5 => {
                // counter of an enclosing loop (or the outermost counter) against a small number
                let c = self.counters[self.t.pick(loop_level.max(1)).min(self.counters.len() - 1)].clone();
                let k = num(self.t.pick(4) as f64);
                let op = *self.t.choose(&[BinOp::Eq, BinOp::Less, BinOp::Greater, BinOp::NotEq, BinOp::LessEq, BinOp::GreaterEq]);
                bin(op, var(&c), k)
            }
            6 => self.any_lit(),
            _ => bin(BinOp::Nor, var(&v), var(&w)),
        }
    }

    fn simple_stmt(&mut self, loop_level: usize) -> Stmt {
        match self.t.weighted(&[50, 12, 10, 10, 6, 3, 4, 5, 4, 3]) {
            7 => {
                // first assigned wherever control gets first: a block local there, a global when that is the top level
                let l = self.locals[self.t.pick(self.locals.len())].clone();
                put(num((10 + self.t.pick(90)) as f64), &l)
            }
            8 => {
                // read it: a runtime error where no such variable is alive
                let l = self.locals[self.t.pick(self.locals.len())].clone();
                say(bin(BinOp::Plus, strlit("l="), var(&l)))
            }
            9 => {
                // grows by one element where it is alive, starts afresh in every new block activation
                let l = self.locals[self.t.pick(self.locals.len())].clone();
                Stmt::Push { array: pvar(&l), value: Some(PushRhs::List(vec![num(1.0)])) }
            }
            6 => {
                // a pronoun: the variable named last, or a runtime error right after a block (taken or not) has ended
                say(bin(BinOp::Plus, strlit("it="), Expr::Primary(Primary::Ident(Ident::Pronoun))))
            }
            0 => self.mark(),
            1 => {
                let c = self.counters[self.t.pick(loop_level.max(1)).min(self.counters.len() - 1)].clone();
                say(var(&c))
            }
            2 => {
                let v = self.vals[self.t.pick(self.vals.len())].clone();
                let e = self.any_lit();
                put(e, &v)
            }
            3 => {
                let v = self.vals[self.t.pick(self.vals.len())].clone();
                say(var(&v))
            }
            4 => {
                let v = self.vals[self.t.pick(self.vals.len())].clone();
                let w = self.vals[self.t.pick(self.vals.len())].clone();
                put(var(&w), &v)
            }
            _ => {
                // a statement that is a runtime error
                self.error_stmt = true;
                match self.t.pick(4) {
                    0 => say(un(UnOp::Minus, strlit("x"))),
                    1 => say(bin(BinOp::Less, lit(Lit::Bool(true)), lit(Lit::Bool(false)))),
                    2 => say(var(&simple("nosuchname"))),
                    _ => Stmt::Dec { dest: Ident::Name(simple("neverset")), amount: 1 },
                }
            }
        }
    }

    pub fn block(&mut self, depth: usize, loop_level: usize) -> Vec<Stmt> {
        let n = self.t.weighted(&[8, 25, 30, 20, 12, 5]);
        let mut out = Vec::new();
        for _ in 0..n {
            if self.budget <= 0 {
                break;
            }
            self.budget -= 1;
            let in_loop = loop_level > 0;
            let w: [u32; 6] = [
                45,
                if depth > 0 { 22 } else { 0 },
                if depth > 0 && loop_level < 3 { 16 } else { 0 },
                if in_loop { 9 } else { 0 },
                if in_loop { 9 } else { 0 },
                if depth > 0 && loop_level < 3 { 5 } else { 0 },
            ];
            match self.t.weighted(&w) {
                0 => out.push(self.simple_stmt(loop_level)),
                1 => {
                    let cond = self.cond(loop_level);
                    let then = self.block(depth - 1, loop_level);
                    let els = if self.t.chance(1, 2) { Some(self.block(depth - 1, loop_level)) } else { None };
                    out.push(Stmt::If { cond, then, els });
                }
                2 => {
                    // counter-guarded loop: the increment precedes any `continue`
                    let c = self.counters[loop_level].clone();
                    let k = self.t.pick(5) as f64;
                    out.push(put(num(0.0), &c));
                    let until = self.t.chance(1, 3);
                    let cond = if until {
                        let op = *self.t.choose(&[BinOp::GreaterEq, BinOp::Eq, BinOp::Greater]);
                        let k = if op == BinOp::Greater { (k - 1.0).max(0.0) } else { k };
                        bin(op, var(&c), num(k))
                    } else {
                        match self.t.pick(3) {
                            0 => bin(BinOp::Less, var(&c), num(k)),
                            1 => bin(BinOp::NotEq, var(&c), num(k)),
                            _ => bin(BinOp::LessEq, var(&c), num((k - 1.0).max(0.0))),
                        }
                    };
                    let mut body = vec![Stmt::Inc { dest: Ident::Name(c.clone()), amount: 1 }];
                    body.extend(self.block(depth - 1, loop_level + 1));
                    if self.t.chance(1, 6) {
                        body.push(Stmt::Continue);
                        self.continue_last = true;
                    }
                    out.push(if until { Stmt::Until { cond, body } } else { Stmt::While { cond, body } });
                }
                3 => out.push(Stmt::Break),
                4 => out.push(Stmt::Continue),
                _ if self.t.chance(1, 3) => {
                    // a loop driven by a side-effecting condition, its body often empty
                    let cond = if self.t.chance(1, 2) {
                        Expr::Primary(Primary::Pop(Box::new(pvar(&self.queue.clone()))))
                    } else {
                        Expr::Primary(Primary::Call(self.tick.clone(), vec![num(2.0 + self.t.pick(4) as f64)]))
                    };
                    self.side_effect_cond = true;
                    let body = if self.t.chance(1, 2) { vec![] } else { self.block(depth - 1, loop_level + 1) };
                    out.push(Stmt::While { cond, body });
                    out.push(say(var(&self.queue.clone())));
                    out.push(say(var(&self.ticks.clone())));
                }
                _ => {
                    // free-form loop on a value; may not terminate (the model's budget decides)
                    let v = self.vals[self.t.pick(self.vals.len())].clone();
                    let until = self.t.chance(1, 2);
                    let mut body = self.block(depth - 1, loop_level + 1);
                    match self.t.pick(3) {
                        0 => body.push(Stmt::Break),
                        1 => {
                            let e = self.any_lit();
                            body.push(put(e, &v))
                        }
                        _ => {
                            let e = self.any_lit();
                            body.insert(0, put(e, &v))
                        }
                    }
                    let cond = match self.t.pick(4) {
                        0 => un(UnOp::Not, var(&v)),
                        // any condition shape in a loop header too (orderings that are errors for some kinds, lists, ...)
                        1 => self.cond(loop_level),
                        _ => var(&v),
                    };
                    out.push(if until { Stmt::Until { cond, body } } else { Stmt::While { cond, body } });
                }
            }
        }
        out
    }

    pub fn program(&mut self) -> Program {
        let mut s: Vec<Stmt> = Vec::new();
        for c in self.counters.clone() {
            s.push(put(num(0.0), &c));
        }
        for v in self.vals.clone() {
            let u = gen_uval(self.t);
            s.extend(u.stmts(&v, &self.scratch.clone()));
        }
        // the queue ends in falsy values; the ticker says a marker, counts, and answers whether the count is below its argument
        let q: Vec<Expr> = (0..3 + self.t.pick(6)).map(|_| num((self.t.pick(4) + 1) as f64)).chain([num(0.0), num(5.0), lit(Lit::Null)]).collect();
        s.push(Stmt::Push { array: pvar(&self.queue.clone()), value: Some(PushRhs::List(q)) });
        s.push(put(num(0.0), &self.ticks.clone()));
        let lim = Name::Simple("ticklimit".into());
        s.push(Stmt::Function {
            name: self.tick.clone(),
            params: vec![lim.clone()],
            body: vec![
                Stmt::Inc { dest: Ident::Name(self.ticks.clone()), amount: 1 },
                say(bin(BinOp::Plus, strlit("tick"), var(&self.ticks.clone()))),
                Stmt::Return { value: bin(BinOp::Less, var(&self.ticks.clone()), var(&lim)) },
            ],
        });
        let body = self.block(4, 0);
        s.extend(body);
        if self.t.chance(1, 30) {
            // a loop of 250-420 passes (more than a byte can count), with a `continue` on most passes and a `break`
            // on the way: only every 64th pass prints
            let n = simple("passes");
            let k = 250 + self.t.pick(171);
            let brk = if self.t.chance(1, 2) { k + 5 } else { 200 + self.t.pick(k - 200) };
            s.push(put(num(0.0), &n));
            s.push(Stmt::While {
                cond: bin(BinOp::Less, var(&n), num(k as f64)),
                body: vec![
                    Stmt::Inc { dest: Ident::Name(n.clone()), amount: 1 },
                    Stmt::If { cond: bin(BinOp::Eq, var(&n), num(brk as f64)), then: vec![say(strlit("out")), Stmt::Break], els: None },
                    Stmt::If { cond: bin(BinOp::Eq, var(&n), num(256.0)), then: vec![say(var(&n))], els: None },
                    Stmt::If {
                        cond: bin(BinOp::Or, bin(BinOp::Or, bin(BinOp::Eq, var(&n), num(64.0)), bin(BinOp::Eq, var(&n), num(128.0))), bin(BinOp::Eq, var(&n), num(255.0))),
                        then: vec![],
                        els: Some(vec![Stmt::Continue]),
                    },
                    say(var(&n)),
                ],
            });
            s.push(say(var(&n)));
        }
        s.push(self.mark());
        Program::single(s)
    }
}
