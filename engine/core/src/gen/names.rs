//! Name pools that avoid every keyword alias in any case and only use letters
//! whose per-character case mappings are bijective.

use crate::ast::Name;
use crate::kw;
use crate::tape::Tape;

pub const SIMPLE: &[&str] = &[
    "x", "y", "z", "foo", "bar", "counter", "total", "Tommy", "Gina", "tmp", "limit", "index", "result", "ünï", "Éclair",
    "λάμδα", "жук", "Midnight", "w", "acc", "naïve", "queue", "stack", "flag", "DOOM",
    // a keyword or alias followed directly by a non-ASCII letter; words with an inner apostrophe
    "noël", "isä", "años", "atö", "orë", "ma'am", "o'clock", "Upé",
];
pub const PREFIXES: &[&str] = &["a", "an", "the", "my", "your", "our", "My", "The", "YOUR", "An", "A", "oUr"];
pub const COMMON_WORDS: &[&str] = &[
    "heart", "dream", "life", "world", "night", "ünï", "fire", "Love", "soul", "hands", "times", "right", "top", "back",
    "lies", "word", "song", "élan", "o'clock", "rock'n'roll", "ma'am", "años", "isä", "Noël",
];
pub const PROPER_WORDS: &[&str] = &[
    "Doctor", "Feelgood", "Johnny", "B", "Goode", "Black", "Sabbath", "Élan", "Vital", "Mister", "Crowley", "Lady", "Stardust",
    "ZZ", "Topp", "Ωmega", "Жук", "O'Neil", "Noël", "Isä", "Itö",
];

pub const FALLBACK: &[&str] = &[
    "alpha", "bravo", "charlie", "delta", "echo", "foxtrot", "golf", "hotel", "india", "juliet", "kilo", "lima", "mike", "november",
    "oscar", "papa",
];

pub fn check_pools() {
    for fam in FAMILIES {
        for m in fam.iter() {
            if m.len() == 1 || m[0].chars().next().unwrap().is_uppercase() {
                for w in m.iter() {
                    assert!(!kw::is_keyword(w), "family word {} is a keyword", w);
                }
            } else {
                assert!(PREFIXES.contains(&m[0]), "family prefix {}", m[0]);
            }
        }
    }
    for w in FALLBACK {
        assert!(!kw::is_keyword(w), "fallback word {} is a keyword", w);
    }
    for w in SIMPLE.iter().chain(PROPER_WORDS.iter()) {
        assert!(!kw::is_keyword(w), "pool word {} is a keyword", w);
        assert!(w.chars().all(|c| c.is_alphabetic() || c == '\'') && !w.starts_with('\'') && !w.ends_with('\''));
    }
    for w in PROPER_WORDS {
        assert!(w.chars().next().unwrap().is_uppercase());
    }
}

/// families of distinct names whose letters run together to the same text: a table keyed by the flattened spelling
/// (word breaks, prefix or kind ignored) would merge them
const FAMILIES: &[&[&[&str]]] = &[
    &[&["Super", "Man"], &["Su", "Perman"], &["Su", "Per", "Man"], &["superman"]],
    &[&["Night", "Owl"], &["Nigh", "Towl"], &["nightowl"]],
    &[&["an", "ice"], &["a", "nice"], &["anice"]],
    &[&["my", "heart"], &["myheart"], &["Myhe", "Art"]],
    &[&["the", "me"], &["theme"], &["Th", "Eme"]],
    // one name is the other plus further words
    &[&["Papa", "Bear"], &["Papa", "Bear", "Junior"], &["Papa", "Bear", "Junior", "Junior"], &["Papa", "Bea"]],
    &[&["Black", "Sabbath"], &["Black", "Sabbath", "Vol"], &["Black", "Sab"]],
];

/// a name from the families only (adversarial naming: every name of a program close to another one)
pub fn adversarial(t: &mut Tape) -> Name {
    family_member(t)
}

/// `n` pairwise distinct names drawn from the families as far as they go
pub fn distinct_adversarial(t: &mut Tape, n: usize) -> Vec<Name> {
    let mut out: Vec<Name> = Vec::new();
    let mut tries = 0;
    while out.len() < n {
        tries += 1;
        let cand = if tries > 12 * n { fallback(out.len()) } else if tries > 6 * n { any(t) } else { family_member(t) };
        if !out.iter().any(|o| o.key() == cand.key()) {
            out.push(cand);
        }
    }
    out
}

/// one member of a family: 1 word = simple, lower-case prefix + word = common, capitalised words = proper
fn family_member(t: &mut Tape) -> Name {
    let fam = FAMILIES[t.pick(FAMILIES.len())];
    let m = fam[t.pick(fam.len())];
    if m.len() == 1 {
        Name::Simple(m[0].to_string())
    } else if m[0].chars().next().map_or(false, |c| c.is_uppercase()) {
        Name::Proper(m.iter().map(|w| w.to_string()).collect())
    } else {
        Name::Common(m[0].to_string(), m[1].to_string())
    }
}

pub fn simple(t: &mut Tape) -> Name {
    Name::Simple(t.choose(SIMPLE).to_string())
}

pub fn common(t: &mut Tape) -> Name {
    Name::Common(t.choose(PREFIXES).to_string(), t.choose(COMMON_WORDS).to_string())
}

pub fn proper(t: &mut Tape) -> Name {
    let n = 2 + t.pick(2);
    Name::Proper((0..n).map(|_| t.choose(PROPER_WORDS).to_string()).collect())
}

pub fn any(t: &mut Tape) -> Name {
    match t.weighted(&[50, 30, 20, 9]) {
        0 => simple(t),
        1 => common(t),
        2 => proper(t),
        _ => family_member(t),
    }
}

/// `n` names that denote pairwise distinct variables (distinct keys)
pub fn distinct(t: &mut Tape, n: usize) -> Vec<Name> {
    let mut out: Vec<Name> = Vec::new();
    let mut tries = 0;
    while out.len() < n {
        tries += 1;
        let cand = if tries > 8 * n { fallback(out.len()) } else { any(t) };
        if !out.iter().any(|o| o.key() == cand.key()) {
            out.push(cand);
        }
    }
    out
}

fn fallback(i: usize) -> Name {
    // guaranteed fresh: not in any pool, not a keyword
    const F: &[&str] = FALLBACK;
    Name::Simple(format!("{}{}", F[i % F.len()], "q".repeat(i / F.len())))
}

/// a case variation of the same name (same variable): per-character for ASCII and accented letters
pub fn recase(n: &Name, t: &mut Tape) -> Name {
    fn word(w: &str, keep_initial_upper: bool, t: &mut Tape) -> String {
        let mode = t.pick(4);
        w.chars()
            .enumerate()
            .map(|(i, c)| {
                if i == 0 && keep_initial_upper {
                    return c;
                }
                let flip = match mode {
                    0 => false,
                    1 => true,
                    2 => i == 0,
                    _ => t.chance(1, 2),
                };
                if !flip {
                    return c;
                }
                // only flip when the mapping is a 1:1 round trip
                let up: Vec<char> = c.to_uppercase().collect();
                let lo: Vec<char> = c.to_lowercase().collect();
                if c.is_lowercase() && up.len() == 1 && up[0].to_lowercase().collect::<Vec<_>>() == vec![c] {
                    up[0]
                } else if c.is_uppercase() && lo.len() == 1 && lo[0].to_uppercase().collect::<Vec<_>>() == vec![c] {
                    lo[0]
                } else {
                    c
                }
            })
            .collect()
    }
    match n {
        // a capitalised simple name next to nothing is still simple; any case goes
        Name::Simple(s) => Name::Simple(word(s, false, t)),
        Name::Common(a, b) => Name::Common(word(a, false, t), word(b, false, t)),
        // proper-name words must keep an upper-case initial
        Name::Proper(ws) => Name::Proper(ws.iter().map(|w| word(w, true, t)).collect()),
    }
}
