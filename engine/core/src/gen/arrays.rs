//! C06 generator: histories of array operations over several variables that are
//! copied from one another, interpreted by the model while they are generated so
//! that a dump of *all* variables can follow every mutating step.

use super::names;
use super::syntax::POETIC_WORDS;
use crate::ast::*;
use crate::model::{Key, Limits, Machine, Scoping, V};
use crate::tape::Tape;
use std::collections::BTreeSet;

pub struct ArrGen<'t, 'a> {
    pub t: &'t mut Tape<'a>,
    vars: Vec<Name>,
    neg: Name,
    frac: Name,
    mutator: Name,
    mparam: Name,
    reader: Name,
    rparam: Name,
    pub labels: BTreeSet<&'static str>,
    /// pairs of variables that currently hold copies of one another
    live_copies: Vec<(usize, usize)>,
    pub copy_then_mutate: bool,
}

fn sub(a: Primary, i: Primary) -> Primary {
    Primary::Subscript(Box::new(a), Box::new(i))
}
fn pe(p: Primary) -> Expr {
    Expr::Primary(p)
}

impl<'t, 'a> ArrGen<'t, 'a> {
    pub fn new(t: &'t mut Tape<'a>) -> Self {
        let n = names::distinct(t, 10);
        ArrGen {
            t,
            vars: n[0..4].to_vec(),
            neg: n[4].clone(),
            frac: n[5].clone(),
            mutator: n[6].clone(),
            mparam: n[7].clone(),
            reader: n[8].clone(),
            rparam: n[9].clone(),
            labels: BTreeSet::new(),
            live_copies: vec![],
            copy_then_mutate: false,
        }
    }

    fn v(&mut self) -> usize {
        self.t.pick(self.vars.len())
    }

    fn scalar(&mut self) -> Expr {
        match self.t.pick(9) {
            // not-a-number: an array that holds it equals nothing, itself and its untouched copies included
            8 => var(&Name::Simple("notanumber".into())),
            0 => num(1.0),
            1 => num(2.5),
            2 => strlit("s"),
            3 => strlit(""),
            4 => lit(Lit::Bool(true)),
            5 => lit(Lit::Null),
            6 => lit(Lit::Mysterious),
            _ => num(self.t.pick(100) as f64),
        }
    }

    /// an index primary: small numbers, beyond-the-end numbers, fractional / negative (through variables), keys
    fn index(&mut self) -> Primary {
        match self.t.weighted(&[40, 12, 6, 6, 18, 5, 4, 4, 5]) {
            0 => Primary::Lit(Lit::Num(self.t.pick(4) as f64)),
            1 => {
                self.labels.insert("extend_beyond_end_candidate");
                // now and then far beyond the end (more than 64 / 256 elements)
                let far = if self.t.chance(1, 12) { 60 + self.t.pick(240) } else { 0 };
                Primary::Lit(Lit::Num((4 + self.t.pick(36) + far) as f64))
            }
            2 if self.t.chance(1, 3) => {
                // positions a hair below / above a whole number (what adding 0.1 ten times gives): the integer part counts,
                // for reading and for writing alike
                self.labels.insert("index_next_to_a_whole_number");
                Primary::Lit(Lit::Num(*self.t.choose(&[0.9999999999999999, 1.9999999999999998, 2.0000000000000004, 0.99999999999, 1.0000000000000002, 2.9999999999999996])))
            }
            2 => pvar(&self.frac.clone()),
            3 if self.t.chance(1, 3) => {
                // positions that are numbers but no positions: minus zero (it is 0), not-a-number, infinity, a whole
                // number beyond 2^53, one beyond any length
                self.labels.insert("odd_number_as_position");
                pvar(&Name::Simple((*self.t.choose(&["negzero", "notanumber", "endless", "bignumber", "hugenumber"])).into()))
            }
            3 => pvar(&self.neg.clone()),
            4 => {
                self.labels.insert("dict_key");
                Primary::Lit(Lit::Str(self.t.choose(&["k", "key", "", "0", "ünï"]).to_string()))
            }
            5 => {
                self.labels.insert("dict_key");
                Primary::Lit(Lit::Bool(self.t.chance(1, 2)))
            }
            6 => {
                self.labels.insert("dict_key");
                Primary::Lit(Lit::Null)
            }
            7 => {
                self.labels.insert("dict_key");
                Primary::Lit(Lit::Mysterious)
            }
            _ => Primary::Lit(Lit::Num(1.5)),
        }
    }

    fn target(&mut self, x: usize) -> (Primary, usize) {
        let depth = self.t.weighted(&[20, 55, 19, 5, 1]);
        // now and then deeper than the interpreter's inline subscript capacity (8)
        let depth = if depth == 4 { 8 + self.t.pick(3) } else { depth };
        let mut p = pvar(&self.vars[x].clone());
        for _ in 0..depth {
            let i = self.index();
            p = sub(p, i);
        }
        if depth >= 2 {
            self.labels.insert("nested_subscript");
        }
        (p, depth)
    }

    fn mutated(&mut self, x: usize) {
        if self.live_copies.iter().any(|(a, b)| *a == x || *b == x) {
            self.copy_then_mutate = true;
        }
    }

    fn overwritten(&mut self, x: usize) {
        self.live_copies.retain(|(a, b)| *a != x && *b != x);
    }

    fn op(&mut self, m: &Machine) -> (Vec<Stmt>, bool) {
        let mut x = self.v();
        let y = self.v();
        // type direction: most operations pick an array as their subject, a few stay wild
        if !self.t.chance(1, 10) {
            for _ in 0..3 {
                if matches!(m.peek(&self.vars[x]), Some(V::Arr(_))) {
                    break;
                }
                x = (x + 1) % self.vars.len();
            }
        }
        let xn = self.vars[x].clone();
        let yn = self.vars[y].clone();
        match self.t.weighted(&[22, 14, 10, 10, 8, 8, 8, 6, 4, 4, 3, 3, 5, 5]) {
            12 => {
                // pass the first variable to the function whose parameter shadows it
                self.labels.insert("arg_copy_shadowing_parameter");
                self.overwritten(y);
                if y != 0 {
                    self.live_copies.push((0, y));
                }
                self.copy_then_mutate = true;
                let x0 = self.vars[0].clone();
                // ... which returns at its end, or from inside a loop
                let f = if self.t.chance(1, 2) { "shadowmutator" } else { "loopreturner" };
                (vec![put(pe(Primary::Call(Name::Simple(f.into()), vec![var(&x0)])), &yn), say(var(&x0))], true)
            }
            13 => {
                // the position comes from a queue (a subscript with a side effect: evaluated once per statement)
                self.labels.insert("subscript_with_side_effect");
                self.mutated(x);
                let slots = Name::Simple("slots".into());
                let idx = Primary::Pop(Box::new(pvar(&slots)));
                let st = match self.t.pick(3) {
                    0 => Stmt::Push { array: sub(pvar(&xn), idx), value: Some(PushRhs::List(vec![num(7.0), num(8.0)])) },
                    1 => Stmt::Push { array: sub(pvar(&xn), idx), value: Some(PushRhs::List(vec![num(7.0), strlit("e"), num(9.0)])) },
                    // (no compound assignment here: whether its subscript is evaluated once or twice is not specified)
                    _ if self.t.chance(1, 2) => Stmt::Assign { dest: Lhs::Subscript(Box::new(pvar(&xn)), Box::new(idx)), value: vec![num(5.0)], op: None },
                    // the value comes from the same queue as the position: which of the two is taken first shows
                    _ => {
                        self.labels.insert("value_and_position_from_one_queue");
                        Stmt::Assign { dest: Lhs::Subscript(Box::new(pvar(&xn)), Box::new(idx)), value: vec![pe(Primary::Pop(Box::new(pvar(&slots))))], op: None }
                    }
                };
                (vec![st, say(var(&slots))], true)
            }
            0 => {
                // element write
                let (p, depth) = self.target(x);
                let dest = match p {
                    Primary::Subscript(a, i) => Lhs::Subscript(a, i),
                    _ => Lhs::Ident(Ident::Name(xn.clone())),
                };
                let value = if self.t.chance(1, 4) {
                    self.labels.insert("store_copy");
                    if x != y {
                        self.live_copies.push((x, y));
                    }
                    var(&yn)
                } else {
                    self.scalar()
                };
                if depth == 0 {
                    self.overwritten(x);
                } else {
                    self.mutated(x);
                    if depth >= 2 {
                        self.labels.insert("nested_write");
                    }
                }
                (vec![Stmt::Assign { dest, value: vec![value], op: None }], true)
            }
            1 => {
                // rock with 0 / 1 / n values, or a poetic literal
                let (p, _) = if self.t.chance(3, 4) { (pvar(&xn), 0) } else { self.target(x) };
                let value = match self.t.weighted(&[15, 40, 30, 15]) {
                    0 => None,
                    1 => Some(PushRhs::List(vec![self.scalar()])),
                    2 => {
                        let n = 2 + self.t.pick(3);
                        // now and then more values than the interpreter's inline list capacity (8)
                        let n = if n == 4 && self.t.chance(1, 5) { 9 + self.t.pick(4) } else { n };
                        let mut es: Vec<Expr> = (0..n - 1).map(|_| self.scalar()).collect();
                        if self.t.chance(1, 3) {
                            self.labels.insert("store_copy");
                            if x != y {
                                self.live_copies.push((x, y));
                            }
                            es.push(var(&yn));
                        } else {
                            es.push(self.scalar());
                        }
                        Some(PushRhs::List(es))
                    }
                    _ => {
                        let n = 1 + self.t.pick(3);
                        let words: Vec<PoeticElem> = (0..n)
                            .map(|k| {
                                let w = loop {
                                    let w = *self.t.choose(POETIC_WORDS);
                                    // exact values only: first word must not be a literal word
                                    if k == 0 && crate::kw::is_literal_word(w) {
                                        if self.t.exhausted() {
                                            break "sweet";
                                        }
                                        continue;
                                    }
                                    break w;
                                };
                                PoeticElem::Word(w.to_string())
                            })
                            .collect();
                        Some(PushRhs::Poetic(words))
                    }
                };
                self.labels.insert("rock");
                self.mutated(x);
                (vec![Stmt::Push { array: p, value }], true)
            }
            2 => {
                // roll as a statement, with or without destination
                let (p, _) = if self.t.chance(3, 4) { (pvar(&xn), 0) } else { self.target(x) };
                let dest = if self.t.chance(1, 2) {
                    self.overwritten(y);
                    Some(Lhs::Ident(Ident::Name(yn.clone())))
                } else {
                    None
                };
                self.labels.insert("roll");
                self.mutated(x);
                (vec![Stmt::Pop { array: p, dest }], true)
            }
            3 => {
                // roll as an expression
                self.labels.insert("roll_expr");
                self.mutated(x);
                (vec![say(pe(Primary::Pop(Box::new(pvar(&xn)))))], true)
            }
            4 => {
                // whole-variable copy
                self.overwritten(y);
                if x != y {
                    self.live_copies.push((x, y));
                }
                self.labels.insert("copy");
                let s = if self.t.chance(1, 2) {
                    put(var(&xn), &yn)
                } else {
                    Stmt::Assign { dest: Lhs::Ident(Ident::Name(yn.clone())), value: vec![var(&xn)], op: None }
                };
                (vec![s], true)
            }
            5 => {
                // pass to a function that mutates its parameter and gives it back
                self.labels.insert("arg_copy");
                self.overwritten(y);
                if x != y {
                    self.live_copies.push((x, y));
                }
                self.copy_then_mutate = true;
                (vec![put(pe(Primary::Call(self.mutator.clone(), vec![var(&xn)])), &yn)], true)
            }
            6 => {
                // arrays in comparisons, arithmetic and printing
                let e = match self.t.pick(11) {
                    8 => bin(BinOp::Eq, var(&xn), var(&xn)),
                    9 => bin(BinOp::NotEq, var(&xn), var(&yn)),
                    10 => bin(BinOp::NotEq, var(&xn), var(&xn)),
                    0 => bin(BinOp::Eq, var(&xn), var(&yn)),
                    1 => bin(BinOp::Plus, var(&xn), num(1.0)),
                    2 => bin(BinOp::Eq, var(&xn), num(self.t.pick(4) as f64)),
                    3 => bin(BinOp::Multiply, var(&xn), num(2.0)),
                    4 => bin(BinOp::Less, var(&xn), num(3.0)),
                    5 => bin(BinOp::Minus, var(&xn), var(&yn)),
                    6 => bin(BinOp::NotEq, var(&xn), lit(Lit::Null)),
                    _ => bin(BinOp::Plus, strlit("n="), var(&xn)),
                };
                self.labels.insert("array_in_expression");
                (vec![say(e)], false)
            }
            7 => {
                // element read through a reader function (argument copies, subscript in argument)
                let (p, _) = self.target(x);
                (vec![say(pe(Primary::Call(self.reader.clone(), vec![pe(p)])))], false)
            }
            8 => {
                // scalar variable, later rocked: a scalar turns into a one-element array
                self.overwritten(x);
                self.labels.insert("scalar_assigned");
                let e = self.scalar();
                (vec![put(e, &xn)], true)
            }
            9 => {
                // compound assignment on an element
                let (p, depth) = self.target(x);
                let dest = match p {
                    Primary::Subscript(a, i) => Lhs::Subscript(a, i),
                    _ => Lhs::Ident(Ident::Name(xn.clone())),
                };
                if depth == 0 {
                    self.overwritten(x);
                } else {
                    self.mutated(x);
                }
                (vec![Stmt::Assign { dest, value: vec![num(1.0)], op: Some(BinOp::Plus) }], true)
            }
            10 => {
                // expected runtime errors: array as key
                self.labels.insert("array_key_candidate");
                (vec![say(pe(sub(pvar(&xn), pvar(&yn))))], false)
            }
            _ => {
                // listen-free I/O is not needed here: index something that is not indexable
                self.labels.insert("not_indexable_candidate");
                (vec![say(pe(sub(pvar(&self.neg.clone()), Primary::Lit(Lit::Num(0.0)))))], false)
            }
        }
    }

    /// statements that print everything the model knows about `name`
    pub fn dump_var(name: &Name, v: Option<&V>, out: &mut Vec<Stmt>) {
        let base = pvar(name);
        match v {
            None => {}
            Some(V::Arr(a)) => {
                out.push(say(pe(base.clone())));
                for (i, e) in a.seq.iter().enumerate().take(7) {
                    let el = sub(base.clone(), Primary::Lit(Lit::Num(i as f64)));
                    out.push(say(bin(BinOp::Plus, strlit(""), pe(el.clone()))));
                    if let V::Arr(inner) = e {
                        out.push(say(pe(el.clone())));
                        for j in 0..inner.seq.len().min(3) {
                            out.push(say(bin(BinOp::Plus, strlit(""), pe(sub(el.clone(), Primary::Lit(Lit::Num(j as f64)))))));
                        }
                        for (k, _) in inner.dict.iter().take(2) {
                            out.push(say(bin(BinOp::Plus, strlit(""), pe(sub(el.clone(), key_lit(k))))));
                        }
                    }
                }
                // one past the end reads mysterious
                out.push(say(pe(sub(base.clone(), Primary::Lit(Lit::Num(a.seq.len() as f64))))));
                for (k, e) in a.dict.iter().take(5) {
                    let el = sub(base.clone(), key_lit(k));
                    out.push(say(bin(BinOp::Plus, strlit(""), pe(el.clone()))));
                    if let V::Arr(inner) = e {
                        out.push(say(pe(el.clone())));
                        for j in 0..inner.seq.len().min(2) {
                            out.push(say(bin(BinOp::Plus, strlit(""), pe(sub(el.clone(), Primary::Lit(Lit::Num(j as f64)))))));
                        }
                    }
                }
            }
            Some(_) => {
                out.push(say(pe(base.clone())));
                out.push(say(bin(BinOp::Plus, pe(base.clone()), num(1.0))));
                out.push(say(bin(BinOp::Plus, strlit(""), pe(base))));
            }
        }
    }

    pub fn program(&mut self) -> Program {
        let lim = Limits { max_arr: 600, ..Limits::default() };
        let mut m = Machine::new("", Scoping::Dynamic, lim);
        let mut s: Vec<Stmt> = vec![];
        let mp = self.mparam.clone();
        let rp = self.rparam.clone();
        let prelude = vec![
            put(un(UnOp::Minus, num(1.0)), &self.neg.clone()),
            put(num(0.5), &self.frac.clone()),
            put(bin(BinOp::Divide, num(0.0), num(0.0)), &Name::Simple("notanumber".into())),
            put(bin(BinOp::Multiply, num(0.0), un(UnOp::Minus, num(1.0))), &Name::Simple("negzero".into())),
            put(bin(BinOp::Divide, num(1.0), num(0.0)), &Name::Simple("endless".into())),
            put(num(9007199254740993.0), &Name::Simple("bignumber".into())),
            put(num(1e300), &Name::Simple("hugenumber".into())),
            Stmt::Function {
                name: self.mutator.clone(),
                params: vec![mp.clone()],
                body: vec![
                    Stmt::Push { array: pvar(&mp), value: Some(PushRhs::List(vec![num(99.0)])) },
                    Stmt::Assign { dest: Lhs::Subscript(Box::new(pvar(&mp)), Box::new(Primary::Lit(Lit::Num(0.0)))), value: vec![strlit("changed")], op: None },
                    say(pe(sub(pvar(&mp), Primary::Lit(Lit::Num(0.0))))),
                    say(var(&mp)),
                    Stmt::Return { value: var(&mp) },
                ],
            },
            Stmt::Function {
                name: self.reader.clone(),
                params: vec![rp.clone()],
                body: vec![say(bin(BinOp::Plus, strlit("r:"), var(&rp))), Stmt::Return { value: var(&rp) }],
            },
            // a function whose parameter has the very name of the first variable (it shadows it) and which changes the
            // parameter through the pronoun: the caller's variable must stay as it is
            Stmt::Function {
                name: Name::Simple("shadowmutator".into()),
                params: vec![self.vars[0].clone()],
                body: vec![
                    say(var(&self.vars[0].clone())),
                    Stmt::Push { array: Primary::Ident(Ident::Pronoun), value: Some(PushRhs::List(vec![num(77.0)])) },
                    say(var(&self.vars[0].clone())),
                    Stmt::Assign { dest: Lhs::Subscript(Box::new(Primary::Ident(Ident::Pronoun)), Box::new(Primary::Lit(Lit::Num(1.0)))), value: vec![strlit("via it")], op: None },
                    say(var(&self.vars[0].clone())),
                    Stmt::Pop { array: Primary::Ident(Ident::Pronoun), dest: None },
                    Stmt::Return { value: var(&self.vars[0].clone()) },
                ],
            },
            // the same, leaving through a return inside a loop after changing the parameter
            Stmt::Function {
                name: Name::Simple("loopreturner".into()),
                params: vec![self.vars[0].clone()],
                body: vec![Stmt::While {
                    cond: Expr::Primary(Primary::Lit(Lit::Bool(true))),
                    body: vec![
                        Stmt::Push { array: pvar(&self.vars[0].clone()), value: Some(PushRhs::List(vec![num(55.0)])) },
                        Stmt::Pop { array: pvar(&self.vars[0].clone()), dest: None },
                        Stmt::If { cond: Expr::Primary(Primary::Lit(Lit::Bool(true))), then: vec![Stmt::Return { value: var(&self.vars[0].clone()) }], els: None },
                    ],
                }],
            },
            // positions handed out one at a time
            Stmt::Push { array: pvar(&Name::Simple("slots".into())), value: Some(PushRhs::List([0.0, 1.0, 2.0, 0.0, 1.0, 3.0, 2.0, 0.0, 1.0, 2.0, 1.0, 0.0].iter().map(|n| num(*n)).collect())) },
        ];
        for st in prelude {
            let _ = m.exec_top(&st);
            s.push(st);
        }
        // initial values: mostly arrays of 0-5 elements, some with keys, some scalars
        for v in self.vars.clone() {
            let mut init: Vec<Stmt> = vec![];
            match self.t.weighted(&[70, 15, 15]) {
                0 => {
                    let n = self.t.pick(6);
                    let n = if n == 5 && self.t.chance(1, 4) { 9 + self.t.pick(30) } else { n };
                    if n == 0 {
                        init.push(Stmt::Push { array: pvar(&v), value: None });
                    } else {
                        let es: Vec<Expr> = (0..n).map(|k| if self.t.chance(1, 4) { self.scalar() } else { num((k + 1) as f64) }).collect();
                        init.push(Stmt::Push { array: pvar(&v), value: Some(PushRhs::List(es)) });
                    }
                    if self.t.chance(1, 3) {
                        let e = self.scalar();
                        init.push(Stmt::Assign {
                            dest: Lhs::Subscript(Box::new(pvar(&v)), Box::new(Primary::Lit(Lit::Str("k".into())))),
                            value: vec![e],
                            op: None,
                        });
                    }
                }
                1 => {
                    let e = self.scalar();
                    init.push(put(e, &v));
                }
                _ => {
                    // nested array
                    init.push(Stmt::Push { array: pvar(&v), value: Some(PushRhs::List(vec![num(1.0), num(2.0)])) });
                    init.push(Stmt::Assign {
                        dest: Lhs::Subscript(Box::new(sub(pvar(&v), Primary::Lit(Lit::Num(2.0)))), Box::new(Primary::Lit(Lit::Num(0.0)))),
                        value: vec![strlit("deep")],
                        op: None,
                    });
                }
            }
            for st in init {
                let _ = m.exec_top(&st);
                s.push(st);
            }
        }
        let n_ops = 1 + self.t.pick(14);
        'ops: for _ in 0..n_ops {
            let (stmts, mutating) = self.op(&m);
            for st in stmts {
                let r = m.exec_top(&st);
                s.push(st);
                if r.is_err() {
                    break 'ops; // the program ends here (error, or outside the budget)
                }
            }
            if mutating {
                for v in self.vars.clone() {
                    Self::dump_var(&v, m.peek(&v), &mut s);
                }
            }
        }
        Program::single(s)
    }
}

fn key_lit(k: &Key) -> Primary {
    Primary::Lit(match k {
        Key::Myst => Lit::Mysterious,
        Key::Null => Lit::Null,
        Key::Bool(b) => Lit::Bool(*b),
        Key::Str(s) => Lit::Str(s.clone()),
    })
}
