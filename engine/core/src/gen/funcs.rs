//! C05 generator: functions, scopes, pronouns.  Programs are built to succeed;
//! every program may end in one *expected-failure probe* (see DESIGN.md 5/C05).

use super::names;
use crate::ast::*;
use crate::tape::Tape;

#[derive(Clone, Debug)]
struct FnInfo {
    name: Name,
    params: Vec<Name>,
}

pub struct FnGen<'t, 'a> {
    pub t: &'t mut Tape<'a>,
    pool: Vec<Name>,
    next: usize,
    globals: Vec<Name>,
    queue: Name,
    funcs: Vec<FnInfo>,
    marker: u32,
    pub probe: Option<&'static str>,
    pub idioms: u32,
    /// a function that adds its argument to the first global and gives the argument back
    bumper: Option<Name>,
}

fn idn(n: &Name) -> Ident {
    Ident::Name(n.clone())
}
fn lhs(n: &Name) -> Lhs {
    Lhs::Ident(Ident::Name(n.clone()))
}
fn call(f: &Name, args: Vec<Expr>) -> Expr {
    Expr::Primary(Primary::Call(f.clone(), args))
}
fn it() -> Expr {
    Expr::Primary(Primary::Ident(Ident::Pronoun))
}

impl<'t, 'a> FnGen<'t, 'a> {
    pub fn new(t: &'t mut Tape<'a>) -> Self {
        let pool = names::distinct(t, 40);
        let mut g = FnGen { t, pool, next: 0, globals: vec![], queue: simple("queue"), funcs: vec![], marker: 0, probe: None, idioms: 0, bumper: None };
        g.globals = (0..3).map(|_| g.fresh()).collect();
        g.queue = g.fresh();
        g
    }

    fn fresh(&mut self) -> Name {
        let n = self.pool[self.next % self.pool.len()].clone();
        self.next += 1;
        n
    }

    fn mark(&mut self, tag: &str) -> Stmt {
        self.marker += 1;
        say(strlit(&format!("{}{}", tag, self.marker)))
    }

    fn small(&mut self) -> Expr {
        match self.t.pick(6) {
            0 => num(0.0),
            1 => num(1.0),
            2 => num(2.0),
            3 => num(3.0),
            4 => strlit("s"),
            _ => num(5.0),
        }
    }

    /// the scope-sensitive idiom: a fresh local that would grow if it leaked (prints 1 every time)
    fn idiom(&mut self, x: Expr) -> Vec<Stmt> {
        self.idioms += 1;
        let loc = self.fresh();
        vec![Stmt::Push { array: pvar(&loc), value: Some(PushRhs::List(vec![x])) }, say(var(&loc))]
    }

    fn body(&mut self, me: &FnInfo) -> Vec<Stmt> {
        let p0 = me.params[0].clone();
        let plast = me.params.last().unwrap().clone();
        let mut b: Vec<Stmt> = vec![];
        if self.t.chance(2, 3) {
            b.push(self.mark("f"));
        }
        if self.t.chance(1, 8) {
            // a pronoun as the very first thing: whatever the caller named last (typically in the argument list) is still
            // the referent when the body starts; a runtime error when the caller named nothing since a block or call ended
            b.push(say(bin(BinOp::Plus, strlit("entry:"), it())));
        }
        if self.t.chance(1, 3) {
            // pronoun at function entry is whatever the caller's arguments named last: only print a parameter first
            b.push(say(var(&plast)));
        }
        match self.t.weighted(&[18, 22, 16, 14, 12, 10, 8, 9]) {
            7 => {
                // a loop whose passes end in different ways (fall through, `continue` in either spelling, from inside an
                // if): a fresh local per pass, a parameter read on the way, the parameter returned afterwards
                let i = self.fresh();
                let k = 2 + self.t.pick(3);
                b.push(put(num(0.0), &i));
                let mut lb = vec![Stmt::Inc { dest: idn(&i), amount: 1 }];
                lb.extend(self.idiom(var(&i)));
                let skip = 1 + self.t.pick(k);
                lb.push(Stmt::If { cond: bin(BinOp::Eq, var(&i), num(skip as f64)), then: vec![self.mark("c"), Stmt::Continue], els: None });
                if self.t.chance(1, 2) {
                    lb.push(Stmt::If { cond: bin(BinOp::Greater, var(&i), num(skip as f64)), then: vec![Stmt::Continue], els: Some(vec![self.mark("n")]) });
                }
                lb.push(say(bin(BinOp::Plus, strlit("p:"), var(&p0))));
                b.push(Stmt::While { cond: bin(BinOp::Less, var(&i), num(k as f64)), body: lb });
                let loc = self.fresh();
                b.push(put(var(&plast), &loc));
                b.push(say(var(&loc)));
                if self.t.chance(2, 3) {
                    b.push(Stmt::Return { value: bin(BinOp::Plus, var(&p0), var(&i)) });
                }
            }
            0 => {
                // leaf
                if self.t.chance(1, 2) {
                    b.extend(self.idiom(var(&p0)));
                }
                match self.t.pick(4) {
                    0 => {}
                    1 => b.push(Stmt::Return { value: var(&p0) }),
                    2 => b.push(Stmt::Return { value: bin(BinOp::Plus, var(&p0), var(&plast)) }),
                    _ => {
                        let e = self.small();
                        b.push(Stmt::Return { value: e })
                    }
                }
            }
            1 => {
                // recursion on a decreasing parameter; a parameter is read after the recursive call returned
                let m = self.fresh();
                let r = self.fresh();
                b.push(say(var(&p0)));
                let base = if self.t.chance(1, 2) { BinOp::LessEq } else { BinOp::Eq };
                b.push(Stmt::If { cond: bin(base, var(&p0), num(0.0)), then: vec![Stmt::Return { value: strlit("base") }], els: None });
                b.push(put(bin(BinOp::Minus, var(&p0), num(1.0)), &m));
                let mut args = vec![var(&m)];
                for p in me.params.iter().skip(1) {
                    args.push(var(p));
                }
                b.push(put(call(&me.name, args), &r));
                b.push(say(var(&p0)));
                if self.t.chance(1, 2) {
                    b.extend(self.idiom(var(&p0)));
                }
                b.push(Stmt::Return { value: bin(BinOp::Plus, var(&r), var(&p0)) });
            }
            2 => {
                // return from inside an if inside a loop
                let i = self.fresh();
                b.push(put(num(0.0), &i));
                let mut lb = vec![Stmt::Inc { dest: idn(&i), amount: 1 }];
                if self.t.chance(1, 2) {
                    lb.extend(self.idiom(var(&i)));
                }
                lb.push(Stmt::If { cond: bin(BinOp::Eq, var(&i), var(&p0)), then: vec![Stmt::Return { value: var(&i) }], els: None });
                if self.t.chance(1, 3) {
                    lb.push(say(var(&i)));
                }
                b.push(Stmt::While { cond: bin(BinOp::Less, var(&i), num(4.0)), body: lb });
                if self.t.chance(2, 3) {
                    b.push(Stmt::Return { value: strlit("none") });
                }
            }
            3 if !self.funcs.is_empty() => {
                // caller of an earlier function
                let callee = self.funcs[self.t.pick(self.funcs.len())].clone();
                let args: Vec<Expr> = callee.params.iter().enumerate().map(|(k, _)| if k == 0 { var(&p0) } else { var(&plast) }).collect();
                let r = self.fresh();
                b.push(put(call(&callee.name, args.clone()), &r));
                b.push(say(var(&r)));
                if self.t.chance(1, 2) {
                    b.push(say(call(&callee.name, args)));
                }
                b.push(say(var(&p0)));
                b.push(Stmt::Return { value: var(&r) });
            }
            4 => {
                // writes a global (updates the outer variable) and a local
                let g = self.globals[self.t.pick(self.globals.len())].clone();
                let loc = self.fresh();
                b.push(put(bin(BinOp::Plus, var(&g), num(1.0)), &g));
                b.push(put(var(&p0), &loc));
                b.push(say(var(&g)));
                b.push(say(var(&loc)));
                if self.t.chance(1, 2) {
                    b.push(Stmt::Return { value: var(&g) });
                }
            }
            5 => {
                // pronoun reads and writes inside the body
                let loc = self.fresh();
                b.push(put(var(&p0), &loc));
                b.push(say(it()));
                if self.t.chance(1, 2) {
                    b.push(put(strlit("w"), &loc));
                    b.push(Stmt::Assign { dest: Lhs::Ident(Ident::Pronoun), value: vec![bin(BinOp::Plus, it(), strlit("!"))], op: None });
                    b.push(say(var(&loc)));
                }
                b.push(say(var(&plast)));
                b.push(Stmt::Return { value: it() });
            }
            _ => {
                // if/else as the last statement of the body (it terminates the function block), returns in both arms
                let then = vec![self.mark("t"), Stmt::Return { value: var(&p0) }];
                let els = vec![self.mark("e"), Stmt::Return { value: strlit("other") }];
                b.push(Stmt::If { cond: var(&p0), then, els: Some(els) });
            }
        }
        b
    }

    fn define(&mut self) -> Stmt {
        let name = self.fresh();
        let np = 1 + self.t.weighted(&[45, 30, 14, 9, 2]);
        // now and then more parameters than the interpreter's inline argument capacity (8)
        let np = if np == 5 { 8 + self.t.pick(4) } else { np };
        let mut params: Vec<Name> = vec![];
        for _ in 0..np {
            // a parameter may shadow a global
            if self.t.chance(1, 5) {
                let g = self.globals[self.t.pick(self.globals.len())].clone();
                if !params.iter().any(|p| p.key() == g.key()) {
                    params.push(g);
                    continue;
                }
            }
            params.push(self.fresh());
        }
        let me = FnInfo { name: name.clone(), params: params.clone() };
        // the function must be known while its body is generated (recursion)
        let body = self.body(&me);
        self.funcs.push(me);
        Stmt::Function { name, params, body }
    }

    fn arg(&mut self, last: bool) -> Expr {
        match self.t.weighted(&[30, 30, 15, if last && self.funcs.len() > 1 { 12 } else { 0 }, 8]) {
            0 => {
                let g = self.globals[self.t.pick(self.globals.len())].clone();
                var(&g)
            }
            1 => self.small(),
            // roll has a visible side effect: argument order becomes observable
            2 => Expr::Primary(Primary::Pop(Box::new(pvar(&self.queue.clone())))),
            3 => {
                let f = self.funcs[self.t.pick(self.funcs.len())].clone();
                let args = (0..f.params.len()).map(|_| self.small()).collect();
                call(&f.name, args)
            }
            _ => un(UnOp::Minus, num(1.0)),
        }
    }

    fn call_expr(&mut self) -> Expr {
        let f = self.funcs[self.t.pick(self.funcs.len())].clone();
        let n = f.params.len();
        let args = (0..n).map(|k| self.arg(k + 1 == n)).collect();
        call(&f.name, args)
    }

    fn main_stmts(&mut self, depth: usize) -> Vec<Stmt> {
        let n = 1 + self.t.weighted(&[10, 25, 30, 20, 15]);
        let mut s: Vec<Stmt> = vec![];
        for _ in 0..n {
            match self.t.weighted(&[25, 20, 8, 12, if depth > 0 { 10 } else { 0 }, if depth > 0 { 10 } else { 0 }, 10, if self.bumper.is_some() { 14 } else { 0 }]) {
                7 => {
                    // the statement reads and writes a variable that one of its operands changes on the way: the left
                    // operand is read before the right one is evaluated, whatever the spelling of the mentions
                    let g = self.globals[0].clone();
                    let b = self.bumper.clone().unwrap();
                    let k = num((2 + self.t.pick(5)) as f64);
                    match self.t.pick(5) {
                        0 => s.push(Stmt::Assign { dest: lhs(&g), value: vec![bin(BinOp::Plus, var(&g), call(&b, vec![k]))], op: None }),
                        1 => s.push(put(bin(BinOp::Plus, var(&g), call(&b, vec![k])), &g)),
                        2 => s.push(Stmt::Assign { dest: lhs(&g), value: vec![call(&b, vec![k])], op: Some(BinOp::Plus) }),
                        3 => s.push(Stmt::Assign { dest: lhs(&g), value: vec![bin(BinOp::Multiply, var(&g), call(&b, vec![k]))], op: None }),
                        _ => {
                            let acc = simple("acc");
                            s.push(put(var(&self.queue.clone()), &acc));
                            s.push(Stmt::Assign { dest: lhs(&acc), value: vec![bin(BinOp::Plus, var(&acc), Expr::Primary(Primary::Pop(Box::new(pvar(&acc)))))], op: None });
                            s.push(say(var(&acc)));
                        }
                    }
                    s.push(say(var(&g)));
                }
                0 => {
                    let c = self.call_expr();
                    s.push(say(c))
                }
                1 => {
                    let g = self.globals[self.t.pick(self.globals.len())].clone();
                    let c = self.call_expr();
                    s.push(put(c, &g));
                    s.push(say(var(&g)));
                }
                2 => {
                    if let Expr::Primary(Primary::Call(f, args)) = self.call_expr() {
                        s.push(Stmt::Call { name: f, args });
                    }
                }
                3 => {
                    // pronoun after a naming event
                    let g = self.globals[self.t.pick(self.globals.len())].clone();
                    match self.t.pick(4) {
                        3 => {
                            // two different variables named back to back: the pronoun is the second
                            let g2 = self.globals[(self.t.pick(self.globals.len().max(2) - 1) + 1) % self.globals.len()].clone();
                            s.push(say(var(&g)));
                            s.push(say(var(&g2)));
                            s.push(say(bin(BinOp::Plus, strlit("it:"), it())));
                            s.push(put(var(&g), &g2));
                            s.push(Stmt::Inc { dest: Ident::Pronoun, amount: 1 });
                            s.push(say(var(&g)));
                            s.push(say(var(&g2)));
                        }
                        0 => {
                            s.push(say(var(&g)));
                            s.push(say(it()));
                        }
                        1 => {
                            let e = self.small();
                            s.push(put(e, &g));
                            s.push(say(bin(BinOp::Plus, it(), strlit("?"))));
                        }
                        _ => {
                            s.push(put(num(7.0), &g));
                            s.push(Stmt::Inc { dest: Ident::Pronoun, amount: 1 });
                            s.push(say(var(&g)));
                        }
                    }
                }
                4 => {
                    // a loop calling functions repeatedly
                    let i = self.fresh();
                    s.push(put(num(0.0), &i));
                    let mut body = vec![Stmt::Inc { dest: idn(&i), amount: 1 }];
                    body.extend(self.idiom(var(&i)));
                    body.extend(self.main_stmts(depth - 1));
                    let k = 1 + self.t.pick(3);
                    s.push(Stmt::While { cond: bin(BinOp::Less, var(&i), num(k as f64)), body });
                }
                5 => {
                    let g = self.globals[self.t.pick(self.globals.len())].clone();
                    let mut then = self.idiom(var(&g));
                    then.extend(self.main_stmts(depth - 1));
                    let els = if self.t.chance(1, 3) { Some(vec![self.mark("e")]) } else { None };
                    s.push(Stmt::If { cond: if self.t.chance(3, 4) { lit(Lit::Bool(true)) } else { var(&g) }, then, els });
                }
                _ => {
                    let g = self.globals[self.t.pick(self.globals.len())].clone();
                    s.push(say(var(&g)));
                }
            }
        }
        s
    }

    /// one statement (sequence) whose correct outcome is usually a runtime error
    fn failure_probe(&mut self) -> Vec<Stmt> {
        let g = self.globals[0].clone();
        let f = self.funcs[self.t.pick(self.funcs.len())].clone();
        let ok_args: Vec<Expr> = (0..f.params.len()).map(|_| num(1.0)).collect();
        let (tag, stmts): (&'static str, Vec<Stmt>) = match self.t.pick(22) {
            20 => {
                // a parameter with the very name of its function: inside, the name is the variable, calling it is an error
                let sh = self.fresh();
                (
                    "parameter_named_like_its_function",
                    vec![
                        Stmt::Function { name: sh.clone(), params: vec![sh.clone()], body: vec![say(strlit("in")), Stmt::Return { value: call(&sh, vec![num(0.0)]) }] },
                        say(call(&sh, vec![num(5.0)])),
                    ],
                )
            }
            21 => {
                // the same function name defined twice in one scope: the second definition is a runtime error
                let sh = self.fresh();
                let p = self.fresh();
                (
                    "function_defined_twice",
                    vec![
                        Stmt::Function { name: sh.clone(), params: vec![p.clone()], body: vec![Stmt::Return { value: num(1.0) }] },
                        say(call(&sh, vec![num(0.0)])),
                        Stmt::Function { name: sh.clone(), params: vec![p.clone()], body: vec![Stmt::Return { value: num(2.0) }] },
                        say(call(&sh, vec![num(0.0)])),
                    ],
                )
            }
            19 => {
                // a block whose ONLY statement that can create a variable is of one particular kind: the variable is
                // local to that block all the same, reading it afterwards is a runtime error
                let loc = self.fresh();
                let q = self.queue.clone();
                let declare = match self.t.pick(7) {
                    0 => Stmt::Pop { array: pvar(&q), dest: Some(lhs(&loc)) },
                    1 => Stmt::Push { array: pvar(&loc), value: Some(PushRhs::List(vec![num(1.0)])) },
                    2 => Stmt::Mutation { op: MutOp::Cut, operand: Primary::Lit(Lit::Str("a,b".into())), dest: Some(lhs(&loc)), param: Some(strlit(",")) },
                    3 => Stmt::PoeticNum { dest: lhs(&loc), rhs: PoeticRhs::Literal(vec![PoeticElem::Word("fire".into())]) },
                    4 => Stmt::PoeticStr { dest: lhs(&loc), text: "some words".into() },
                    5 => Stmt::Mutation { op: MutOp::Cast, operand: Primary::Lit(Lit::Str("12".into())), dest: Some(lhs(&loc)), param: None },
                    _ => Stmt::Assign { dest: lhs(&loc), value: vec![num(3.0)], op: None },
                };
                let inner = vec![declare, say(var(&loc))];
                let block = match self.t.pick(3) {
                    0 => Stmt::If { cond: lit(Lit::Bool(true)), then: inner, els: None },
                    1 => Stmt::If { cond: lit(Lit::Bool(false)), then: vec![], els: Some(inner) },
                    _ => {
                        let mut body = inner;
                        body.push(Stmt::Break);
                        Stmt::While { cond: lit(Lit::Bool(true)), body }
                    }
                };
                ("single_declaring_statement_in_block", vec![block, say(strlit("after")), say(var(&loc))])
            }
            18 => {
                // a repeated parameter name is an error when the function is called, not when it is defined
                let (dup, p) = (self.fresh(), self.fresh());
                (
                    "duplicate_parameter",
                    vec![
                        // (the second mention often in another letter case: still the same name)
                        Stmt::Function {
                            name: dup.clone(),
                            params: vec![p.clone(), if self.t.chance(2, 3) { super::names::recase(&p, self.t) } else { p.clone() }],
                            body: vec![Stmt::Return { value: var(&p) }],
                        },
                        say(strlit("defined")),
                        say(call(&dup, vec![num(1.0), num(2.0)])),
                    ],
                )
            }
            12 => {
                // an `if` that is not taken and has no else still ends a block: no pronoun afterwards
                ("pronoun_after_untaken_if", vec![Stmt::If { cond: bin(BinOp::Eq, var(&g), num(12345.0)), then: vec![say(var(&g))], els: None }, say(it())])
            }
            13 => {
                // a parameter that shadows a function: calling through the name is calling a non-function
                let sh = self.fresh();
                (
                    "call_through_shadowing_parameter",
                    vec![
                        Stmt::Function { name: sh.clone(), params: vec![f.name.clone()], body: vec![say(strlit("in")), Stmt::Return { value: call(&f.name, ok_args.clone()) }] },
                        say(call(&sh, vec![num(5.0)])),
                    ],
                )
            }
            14 => (
                "call_through_shadowing_block_local",
                vec![Stmt::If { cond: lit(Lit::Bool(true)), then: vec![put(num(3.0), &f.name), say(var(&f.name)), say(call(&f.name, ok_args.clone()))], els: None }],
            ),
            15 => {
                // reading an element names the array, then the index
                let (arr, idx) = (self.fresh(), self.fresh());
                (
                    "pronoun_after_element_read",
                    vec![
                        Stmt::Push { array: pvar(&arr), value: Some(PushRhs::List(vec![num(5.0), num(6.0), num(7.0)])) },
                        put(num(1.0), &idx),
                        say(Expr::Primary(Primary::Subscript(Box::new(pvar(&arr)), Box::new(pvar(&idx))))),
                        say(it()),
                        put(Expr::Primary(Primary::Subscript(Box::new(pvar(&arr)), Box::new(pvar(&idx)))), &g),
                        say(bin(BinOp::Plus, it(), strlit("!"))),
                    ],
                )
            }
            16 => {
                let (arr, idx) = (self.fresh(), self.fresh());
                (
                    "pronoun_as_index",
                    vec![
                        Stmt::Push { array: pvar(&arr), value: Some(PushRhs::List(vec![num(5.0), num(6.0), num(7.0)])) },
                        put(num(2.0), &idx),
                        say(Expr::Primary(Primary::Subscript(Box::new(pvar(&arr)), Box::new(Primary::Ident(Ident::Pronoun))))),
                    ],
                )
            }
            17 => {
                // a function local that shadows another function, called after the local's function returned
                let sh = self.fresh();
                (
                    "function_visible_again_after_shadowing_call",
                    vec![
                        Stmt::Function { name: sh.clone(), params: vec![f.name.clone()], body: vec![Stmt::Return { value: var(&f.name) }] },
                        say(call(&sh, vec![num(5.0)])),
                        say(call(&f.name, ok_args.clone())),
                    ],
                )
            }
            0 => ("pronoun_after_if", vec![Stmt::If { cond: lit(Lit::Bool(true)), then: vec![say(var(&g))], els: None }, say(it())]),
            1 => (
                "pronoun_write_after_if",
                vec![
                    Stmt::If { cond: var(&g), then: vec![say(var(&g))], els: Some(vec![]) },
                    Stmt::Assign { dest: Lhs::Ident(Ident::Pronoun), value: vec![num(1.0)], op: None },
                    say(var(&g)),
                ],
            ),
            2 => ("pronoun_after_call", vec![Stmt::Call { name: f.name.clone(), args: ok_args }, say(it())]),
            3 => {
                let i = self.fresh();
                (
                    "pronoun_after_loop",
                    vec![
                        put(num(0.0), &i),
                        Stmt::Until { cond: lit(Lit::Bool(true)), body: vec![] },
                        Stmt::While { cond: bin(BinOp::Less, var(&i), num(2.0)), body: vec![Stmt::Inc { dest: idn(&i), amount: 1 }, say(var(&g))] },
                        // after the loop the pronoun is the last name of the condition
                        say(it()),
                        Stmt::Until { cond: lit(Lit::Bool(false)), body: vec![say(var(&g)), Stmt::Break] },
                        say(it()),
                    ],
                )
            }
            4 => {
                let loc = self.fresh();
                ("block_local_after_block", vec![Stmt::If { cond: lit(Lit::Bool(true)), then: vec![put(num(1.0), &loc), say(var(&loc))], els: None }, say(var(&loc))])
            }
            5 => {
                let loc = self.fresh();
                let i = self.fresh();
                (
                    "loop_local_after_loop",
                    vec![
                        put(num(0.0), &i),
                        Stmt::While { cond: bin(BinOp::Less, var(&i), num(2.0)), body: vec![Stmt::Inc { dest: idn(&i), amount: 1 }, put(var(&i), &loc)] },
                        say(var(&loc)),
                    ],
                )
            }
            6 => {
                // a local of the function (its first parameter) after the call
                ("param_after_call", vec![Stmt::Call { name: f.name.clone(), args: ok_args }, say(var(&f.params[0]))])
            }
            7 => {
                let loc = self.fresh();
                (
                    "compound_on_block_local",
                    vec![
                        Stmt::If { cond: lit(Lit::Bool(true)), then: vec![put(num(1.0), &loc)], els: None },
                        Stmt::Assign { dest: lhs(&loc), value: vec![num(1.0)], op: Some(BinOp::Plus) },
                        say(var(&loc)),
                    ],
                )
            }
            8 => {
                let mut a = ok_args.clone();
                if self.t.chance(1, 2) || a.len() == 1 {
                    a.push(num(9.0));
                } else {
                    a.pop();
                }
                ("wrong_arity", vec![say(call(&f.name, a))])
            }
            9 => ("call_of_variable", vec![say(call(&g, vec![num(1.0)]))]),
            10 => ("unknown_name", vec![say(var(&simple("nosuchname")))]),
            _ => ("function_as_variable", vec![say(var(&f.name))]),
        };
        self.probe = Some(tag);
        stmts
    }

    /// A program built around what a call site sees: `apply` calls `helper`; `wrapper` brings something else of that
    /// name into being (a local function, a parameter, a local variable) and then calls `apply`; the top level calls
    /// `apply` and `wrapper` in a generated order, so the same call site runs with different things visible under the
    /// name, before and after the scope that held them has ended.
    fn visibility_program(&mut self) -> Program {
        let helper = self.fresh();
        let apply = self.fresh();
        let wrapper = self.fresh();
        let (x, v, w) = (self.fresh(), self.fresh(), self.fresh());
        let mut s: Vec<Stmt> = vec![];
        for (k, g) in self.globals.clone().iter().enumerate() {
            s.push(put(num((k * 10) as f64), g));
        }
        let global_helper = !self.t.chance(1, 4);
        if global_helper {
            s.push(Stmt::Function { name: helper.clone(), params: vec![x.clone()], body: vec![Stmt::Return { value: bin(BinOp::Plus, var(&x), num(100.0)) }] });
        }
        // apply: one or two call sites of helper, possibly inside a loop (the same site runs several times in one call)
        let site = call(&helper, vec![var(&v)]);
        let apply_body = match self.t.pick(3) {
            0 => vec![Stmt::Return { value: site }],
            1 => vec![say(site.clone()), Stmt::Return { value: site }],
            _ => {
                let n = self.fresh();
                vec![
                    put(num(0.0), &n),
                    Stmt::While {
                        cond: bin(BinOp::Less, var(&n), num(2.0)),
                        body: vec![Stmt::Inc { dest: idn(&n), amount: 1 }, say(site.clone())],
                    },
                    Stmt::Return { value: site },
                ]
            }
        };
        s.push(Stmt::Function { name: apply.clone(), params: vec![v.clone()], body: apply_body });
        // wrapper
        let kind = self.t.pick(4);
        let mut wparams = vec![w.clone()];
        let mut wbody: Vec<Stmt> = vec![];
        match kind {
            0 | 1 => wbody.push(Stmt::Function { name: helper.clone(), params: vec![x.clone()], body: vec![Stmt::Return { value: bin(BinOp::Plus, var(&x), num(1.0)) }] }),
            2 => wparams.push(helper.clone()),
            _ => {
                if !global_helper {
                    wbody.push(put(num(5.0), &helper));
                } else {
                    wbody.push(Stmt::Function { name: helper.clone(), params: vec![x.clone()], body: vec![Stmt::Return { value: bin(BinOp::Multiply, var(&x), num(2.0)) }] });
                }
            }
        }
        if self.t.chance(1, 3) {
            wbody.push(say(call(&apply, vec![var(&w)])));
        }
        wbody.push(Stmt::Return { value: call(&apply, vec![var(&w)]) });
        s.push(Stmt::Function { name: wrapper.clone(), params: wparams.clone(), body: wbody });
        // the top level
        let n = 3 + self.t.pick(4);
        for k in 0..n {
            let arg = num((k + 1) as f64);
            let e = if self.t.chance(1, 2) {
                call(&apply, vec![arg])
            } else if wparams.len() == 2 {
                call(&wrapper, vec![arg, num(7.0)])
            } else {
                call(&wrapper, vec![arg])
            };
            s.push(say(e));
        }
        for g in self.globals.clone() {
            s.push(say(var(&g)));
        }
        Program::single(s)
    }

    pub fn program(&mut self) -> Program {
        if self.t.chance(1, 12) {
            return self.visibility_program();
        }
        let mut s: Vec<Stmt> = vec![];
        // globals
        for (k, g) in self.globals.clone().iter().enumerate() {
            s.push(put(num((k * 10) as f64), g));
        }
        s.push(Stmt::Push { array: pvar(&self.queue.clone()), value: Some(PushRhs::List((1..=8).map(|k| num((100 + k) as f64)).collect())) });
        let nf = 1 + self.t.weighted(&[25, 35, 25, 15]);
        for _ in 0..nf {
            let d = self.define();
            s.push(d);
        }
        if self.t.chance(1, 4) {
            let b = self.fresh();
            let amount = self.fresh();
            let g = self.globals[0].clone();
            s.push(Stmt::Function {
                name: b.clone(),
                params: vec![amount.clone()],
                body: vec![Stmt::Assign { dest: lhs(&g), value: vec![bin(BinOp::Plus, var(&g), var(&amount))], op: None }, Stmt::Return { value: var(&amount) }],
            });
            self.bumper = Some(b);
        }
        // now and then 40-130 further globals of all three name kinds (a symbol table beyond any small inline size),
        // written early, read back after everything else ran
        let mut many: Vec<Name> = vec![];
        if self.t.chance(1, 25) {
            let n = 40 + self.t.pick(91);
            for i in 0..n {
                let w: String = format!("extra{}{}", (b'a' + (i / 26) as u8) as char, (b'a' + (i % 26) as u8) as char);
                let name = match i % 3 {
                    0 => Name::Simple(w),
                    1 => Name::Common(["my", "the", "your"][i % 3].to_string(), w),
                    _ => Name::Proper(vec!["Extra".to_string(), format!("{}{}", (b'A' + (i / 26) as u8) as char, (b'a' + (i % 26) as u8) as char)]),
                };
                s.push(put(num(1000.0 + i as f64), &name));
                many.push(name);
            }
        }
        let main = self.main_stmts(2);
        s.extend(main);
        if !many.is_empty() {
            let k = self.t.pick(many.len());
            for name in [&many[0], &many[k], &many[many.len() - 1], &many[many.len() / 2]] {
                s.push(say(var(name)));
            }
        }
        for g in self.globals.clone() {
            s.push(say(var(&g)));
        }
        if self.t.chance(1, 2) {
            let p = self.failure_probe();
            s.extend(p);
            s.push(say(strlit("after probe")));
        }
        Program::single(s)
    }
}
