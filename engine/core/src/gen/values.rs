//! Random values of every kind and boundary, as build recipes (see `universe`).

use crate::ast::*;
use crate::tape::Tape;
use crate::universe::{universe, BuildStep, UVal};

pub const STR_ATOMS: &[&str] = &[
    "", "a", "b", "ab", "abc", "5", "05", "5.0", " 5", "5 ", "0", "-0", "-1", "1e3", "1E3", ".5", "5.", "+5", "NaN", "nan", "inf",
    "-inf", "infinity", "true", "false", "null", "mysterious", "ünï", "é", "日本", "🎸", "Ａ", "ﬁ", "\u{fffd}", "𝄞", "‘q’", "“dq”", "\u{1b}[2J", "\u{9b}", ",", ", ", " ", "aa", "aaa", "a,b", "a,,b",
    ",a,", "x", "Z", "z", "1", "2", "10", "9", "65", "0x10", "ff", "FF", "zz", "-ff", "1_0", "\t", "a b c", "hello world",
    // every letter case of the non-finite spellings, exponents out of range, digits that are not ASCII
    "Infinity", "INF", "Inf", "-Infinity", "+inf", "INFINITY", "NAN", "Nan", "1e400", "-1e400", "1e-400", "1e+2", "0.1e1", "١٢٣", "１２", "1,5", "0b11", "0o7", "e5", "1e", "--1", "+-1", "+", "-", ".", "1.2.3",
    // equal to the eye, not to the machine: decomposed e-acute (composed is above), numbers one ulp apart, letter case
    // a backslash is a character like any other (there are no escape sequences)
    "\\n", "\\t", "\\\\", "C:\\temp\\new", "\\", "\\u{41}", "\\0", "%s", "{}", "$x",
    "e\u{301}", "0.30000000000000004", "0.3", "ABC", "Abc", "1.0", "1.", "01", "1e0", "İ", "ß", "SS",
];

/// numeric-looking strings at the edges of integer types, with more leading zeros than any integer type has digits
pub const NUM_EDGES: &[&str] = &[
    "18446744073709551615", "18446744073709551616", "18446744073709551617", "99999999999999999999", "100000000000000000000", "9223372036854775807", "9223372036854775808", "-9223372036854775808",
    "-9223372036854775809", "9007199254740993", "4294967296", "4294967295", "2147483648", "340282366920938463463374607431768211456", "7fffffffffffffff", "8000000000000000", "-8000000000000000",
    "ffffffffffffffff", "111111111111111111111111111111111111111111111111111111111111111", "1000000000000000000000000000000000000000000000000000000000000000", "zzzzzzzzzzzz", "1y2p0ij32e8e7", "1y2p0ij32e8e8",
];

/// byte lengths around the sizes buffers tend to have
pub const SIZE_EDGES: &[usize] = &[31, 32, 33, 63, 64, 65, 66, 127, 128, 129, 255, 256, 257, 511, 512, 513, 1023, 1024, 1025, 2047, 2048, 2049, 4095, 4096, 4097, 8191, 8192, 8193];

/// a string of exactly `bytes` bytes made of `unit` (1-4 bytes per character), padded with ASCII to the exact length
pub fn sized_string(bytes: usize, unit: char) -> String {
    let mut s = String::with_capacity(bytes);
    while s.len() + unit.len_utf8() <= bytes {
        s.push(unit);
    }
    while s.len() < bytes {
        s.push('x');
    }
    s
}

pub fn gen_number_expr(t: &mut Tape) -> (Expr, String) {
    // boundaries and a spread of magnitudes; negatives via unary minus, non-finite via division
    match t.weighted(&[30, 25, 10, 8, 6, 3, 3, 3, 12]) {
        0 => {
            let v = *t.choose(&[0.0, 1.0, 2.0, 3.0, 5.0, 10.0, 36.0, 37.0, 65.0, 97.0, 255.0, 256.0, 1000.0]);
            (num(v), format!("{}", v))
        }
        1 => {
            let m = t.pick(100000) as f64;
            let k = t.pick(6) as i32;
            let v = m / 10f64.powi(k);
            // spell through Display so that literal and value agree exactly
            let v: f64 = format!("{}", v).parse().unwrap();
            (num(v), format!("{}", v))
        }
        2 => {
            // ties, neighbours of ties, and the places where `floor(x + 0.5)` or a cast goes wrong
            let v = *t.choose(&[
                0.5, 1.5, 2.5, 0.1, 0.25, 3.7, 3.2, 0.999, 0.3, 0.30000000000000004, 0.1 + 0.2, 1.0000000000000002, 0.9999999999999999, 2.0000001, 1e-17, 5e-324, 1e-300, 2.220446049250313e-16, 1.1102230246251565e-16, 0.49999999999999994, 0.5000000000000001, 1.4999999999999998, 3.5, 4.5,
                4503599627370497.0, 4503599627370495.5, 4503599627370496.5, 2251799813685247.5, 8388607.5, 2147483647.5, 2147483648.5, 4294967295.5,
            ]);
            if t.chance(1, 3) {
                (un(UnOp::Minus, num(v)), format!("-{}", v))
            } else {
                (num(v), format!("{}", v))
            }
        }
        3 => {
            let v = *t.choose(&[9007199254740992.0, 9007199254740991.0, 2147483647.0, 2147483648.0, 65535.0, 65536.0, 127.0, 128.0, 4294967296.0, 4294967295.0, 1e15, 1e16, 1e21, 1e300, 1e308, 1114111.0, 1114112.0, 55295.0, 55296.0, 57343.0, 57344.0, 18446744073709551616.0, 9223372036854775808.0]);
            (num(v), format!("{}", v))
        }
        4 => (bin(BinOp::Multiply, num(0.0), un(UnOp::Minus, num(1.0))), "-0".into()),
        5 => (bin(BinOp::Divide, num(0.0), num(0.0)), "NaN".into()),
        6 => (bin(BinOp::Divide, num(1.0), num(0.0)), "inf".into()),
        7 => (bin(BinOp::Divide, un(UnOp::Minus, num(1.0)), num(0.0)), "-inf".into()),
        _ => {
            let (e, l) = {
                let m = t.pick(1000) as f64;
                let k = t.pick(3) as i32;
                let v: f64 = format!("{}", m / 10f64.powi(k)).parse().unwrap();
                (num(v), format!("{}", v))
            };
            (un(UnOp::Minus, e), format!("-{}", l))
        }
    }
}

pub fn gen_string(t: &mut Tape) -> String {
    // one string in 40 sits on a boundary: an exact byte length (of 1-, 2-, 3- or 4-byte characters), an integer-type
    // edge, or digits behind 50-90 leading zeros
    if t.chance(1, 40) {
        return match t.pick(3) {
            0 => sized_string(*t.choose(SIZE_EDGES), *t.choose(&['x', 'é', '日', '🎸'])),
            1 => t.choose(NUM_EDGES).to_string(),
            _ => {
                let z = 50 + t.pick(41);
                format!("{}{}{}", if t.chance(1, 5) { "-" } else { "" }, "0".repeat(z), *t.choose(&["101", "ff", "7", "12", "zz", "0", "1.5", "9223372036854775807"]))
            }
        };
    }
    let n = 1 + t.weighted(&[50, 25, 14, 9, 2]);
    // now and then a long one (40-120 characters, mostly multi-byte): fixed-size buffers, truncated messages
    let n = if n == 5 { 20 + t.pick(40) } else { n };
    let mut s = String::new();
    for _ in 0..n {
        s.push_str(*t.choose(STR_ATOMS));
    }
    s
}

pub fn gen_scalar_expr(t: &mut Tape) -> (Expr, String) {
    match t.weighted(&[35, 35, 8, 8, 7, 7]) {
        0 => gen_number_expr(t),
        1 => {
            let s = gen_string(t);
            (strlit(&s), format!("{:?}", s))
        }
        2 => (lit(Lit::Bool(true)), "true".into()),
        3 => (lit(Lit::Bool(false)), "false".into()),
        4 => (lit(Lit::Null), "null".into()),
        _ => (lit(Lit::Mysterious), "mysterious".into()),
    }
}

pub fn gen_key(t: &mut Tape) -> Lit {
    match t.weighted(&[50, 12, 12, 13, 13]) {
        0 => Lit::Str(t.choose(&["k", "key", "", "0", "ünï", "a", "b", "c", "true", "null"]).to_string()),
        1 => Lit::Bool(true),
        2 => Lit::Bool(false),
        3 => Lit::Null,
        _ => Lit::Mysterious,
    }
}

/// a random value of any kind
pub fn gen_uval(t: &mut Tape) -> UVal {
    if t.chance(1, 4) {
        let u = universe();
        return u[t.pick(u.len())].clone();
    }
    if t.chance(1, 4) {
        // array
        let mut build = Vec::new();
        let mut label = String::from("[");
        if t.chance(1, 6) {
            build.push(BuildStep::PushNone);
        }
        let n = t.weighted(&[15, 30, 25, 15, 10, 5]);
        for _ in 0..n {
            if t.chance(1, 6) {
                let (e, l) = gen_scalar_expr(t);
                build.push(BuildStep::PushArrayOf(vec![e]));
                label.push_str(&format!("[{}],", l));
            } else {
                let (e, l) = gen_scalar_expr(t);
                build.push(BuildStep::Push(vec![e]));
                label.push_str(&format!("{},", l));
            }
        }
        let nk = t.weighted(&[60, 25, 10, 5]);
        for _ in 0..nk {
            let k = gen_key(t);
            let (e, l) = gen_scalar_expr(t);
            label.push_str(&format!("{:?}:{},", k, l));
            build.push(BuildStep::SetKey(k, e));
        }
        if build.is_empty() {
            build.push(BuildStep::PushNone);
        }
        label.push(']');
        return UVal { label, build };
    }
    let (e, label) = gen_scalar_expr(t);
    UVal { label, build: vec![BuildStep::Put(e)] }
}
