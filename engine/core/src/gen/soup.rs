//! Byte-level "token soup" texts for the lexer/parser checks, plus token-level
//! mutations of valid texts.  Everything is decoded from a choice tape.

use crate::kw;
use crate::tape::Tape;

const WORDS: &[&str] = &[
    "x", "Tommy", "heart", "desire", "Gina", "abc", "rockstar", "don't", "rock'n'roll", "rockin'", "'bout", "x's",
    "they're", "X'S", "We'RE", "it's", "he's", "Tommy's", "a'b'c", "s", "re", "n", "Johnny", "B", "Goode",
];
const NUMBERS: &[&str] = &["5", "3.14", ".5", "5.", "1e3", "007", "0", "1.2.3", "12ab", "1e", "1e-3", "1e999", "9.", "0x10", "5's", "5're", "1.'s"];
const BAD_IDS: &[&str] = &["ab1", "x_", "_x", "a_b", "a\0", "x1y", "ab1's", "é1", "_", "__x"];
const PUNCT: &[&str] = &[
    ",", ".", "&", "+", "-", "*", "/", "<", ">", "<=", ">=", "=", "!", "?", ";", ":", "[", "]", "{", "}", "#", "$", "%",
    "@", "^", "|", "~", "\\", "`", "'", "''", ")", "< =", "<==", "=>",
];
const QUOTED: &[&str] = &[
    "\"str\"", "\"multi\nline\"", "\"unterminated", "\"\"", "\"a\"'s", "\"a\nb\"'s", "\"a\"'re", "\"x\ny\nz\"", "\"(\"",
    "\"é\n\"'s x", "\"\n", "\"a\"'", "\"a\"'n'",
];
const COMMENTS: &[&str] = &[
    "(c)", "(multi\nline)", "(unterminated", "()", "(c)'s", "(a\nb)'s", "(\")", "((nested)", "(x)'re", "(\n\n)", "(ü\n)'s y",
];
const NEWLINES: &[&str] = &["\n", "\r\n", "\n\n", "\n \n", "\n\t\n", "\r"];
const SPACES: &[&str] = &[" ", "  ", "\t", "\u{a0}", "\u{2028}", "\u{3000}", "\u{b}", "\u{c}", "\u{85}"];
const NONASCII: &[&str] = &["ünï", "λόγος", "Ж", "名前", "ß", "İ", "Ünï", "Éa", "ǅ", "ſ", "é's", "Ωmega", "naïve", "ＡＢ"];
const NUMERIC_NONASCII: &[&str] = &["²", "٣", "½", "Ⅷ", "٣٤", "²x", "x²", "５"];
const ODD: &[&str] = &["\0", "\u{1}", "🎸", "\u{7f}", "\u{200b}", "\u{feff}", "e\u{301}", "\u{301}"];
/// letters whose lower/upper-case mapping changes the UTF-8 length or the number of characters (Kelvin, Ohm and
/// Angstrom signs, capital sharp s, dotted capital I, Ⱥ Ⱦ, ligatures, titlecase digraphs, final sigma ...): byte offsets
/// computed on a re-cased copy do not fit the original
const CASEY: &[&str] = &["\u{212a}", "\u{2126}", "\u{212b}", "ẞ", "İ", "Ⱥ", "Ⱦ", "ı", "ſ", "ΐ", "ŉ", "ǰ", "ﬁ", "ﬃ", "ς", "Σ", "ǅ", "ᾼ", "ß", "a", "s", "R", "e"];
const SUFFIXY: &[&str] = &["'n'", "'s", "'re", "'S", "'RE", "'n", "n'", "'N'", " 'n' ", "'s's", "'re's"];

fn recase(w: &str, t: &mut Tape) -> String {
    match t.pick(4) {
        0 => w.to_string(),
        1 => w.to_uppercase(),
        2 => {
            let mut c = w.chars();
            match c.next() {
                Some(f) => f.to_uppercase().collect::<String>() + c.as_str(),
                None => String::new(),
            }
        }
        _ => w.chars().map(|c| if t.chance(1, 2) { c.to_ascii_uppercase() } else { c }).collect(),
    }
}

/// a word of 1-5 case-mapping-sensitive letters, half of the time with an apostrophe suffix glued on
pub fn casey_word(t: &mut Tape) -> String {
    let n = 1 + t.pick(5);
    let mut w = String::new();
    for _ in 0..n {
        w.push_str(*t.choose(CASEY));
        if t.chance(1, 12) {
            w.push('\'');
        }
    }
    match t.pick(8) {
        0 | 1 => w.push_str("'s"),
        2 => w.push_str("'re"),
        3 => w.push_str(*t.choose(SUFFIXY)),
        _ => {}
    }
    w
}

/// long tokens: words, numerals, strings and comments of 25-90 characters (fixed-size buffers, truncation of quoted
/// tokens in messages), in ASCII and in 2-, 3- and 4-byte letters so that any byte offset may fall inside a character
pub fn long_fragment(t: &mut Tape) -> String {
    let n = 25 + t.pick(66);
    let alphabet: &[&str] = match t.pick(5) {
        0 | 1 => &["a", "b", "R", "o", "c", "k", "s", "t", "r"],
        2 => &["д", "р", "у", "з", "ь", "я", "Ж", "α", "λ", "é"],
        3 => &["名", "前", "ア", "€", "a"],
        _ => &["a", "é", "я", "名", "🎸", "x", "ü"],
    };
    let mut body = String::new();
    for _ in 0..n {
        body.push_str(*t.choose(alphabet));
    }
    match t.pick(9) {
        0 | 1 | 2 => body,
        3 => format!("\"{}\"", body),
        4 => format!("\"{}", body),
        5 => format!("({})", body),
        6 => format!("({}", body),
        7 => format!("{}'s", body),
        _ => (0..n).map(|_| (b'0' + t.pick(10) as u8) as char).collect(),
    }
}

pub fn fragment(t: &mut Tape) -> String {
    let all_kw = kw::all_aliases();
    match t.weighted(&[30, 14, 8, 4, 10, 6, 6, 10, 4, 3, 2, 2, 3, 3, 3]) {
        0 => recase(all_kw[t.pick(all_kw.len())], t),
        1 => t.choose(WORDS).to_string(),
        2 => t.choose(NUMBERS).to_string(),
        3 => t.choose(BAD_IDS).to_string(),
        4 => t.choose(PUNCT).to_string(),
        5 => t.choose(QUOTED).to_string(),
        6 => t.choose(COMMENTS).to_string(),
        7 => t.choose(NEWLINES).to_string(),
        8 => t.choose(SPACES).to_string(),
        9 => t.choose(NONASCII).to_string(),
        10 => t.choose(NUMERIC_NONASCII).to_string(),
        11 => t.choose(ODD).to_string(),
        12 => t.choose(SUFFIXY).to_string(),
        13 => casey_word(t),
        _ => long_fragment(t),
    }
}

/// weighted towards the shapes that position bookkeeping gets wrong
pub fn fragment_lexy(t: &mut Tape) -> String {
    match t.weighted(&[20, 10, 10, 6, 6, 6, 4, 4, 3]) {
        0 => fragment(t),
        1 => t.choose(QUOTED).to_string(),
        2 => t.choose(COMMENTS).to_string(),
        3 => t.choose(SUFFIXY).to_string(),
        4 => t.choose(NONASCII).to_string(),
        5 => t.choose(NEWLINES).to_string(),
        6 => t.choose(BAD_IDS).to_string(),
        7 => t.choose(WORDS).to_string(),
        _ => casey_word(t),
    }
}

pub fn soup(t: &mut Tape, max_frags: usize, lexy: bool) -> String {
    let n = t.pick(max_frags + 1);
    let mut s = String::new();
    for _ in 0..n {
        let f = if lexy { fragment_lexy(t) } else { fragment(t) };
        s.push_str(&f);
        match t.weighted(&[70, 18, 6, 3, 3]) {
            0 => s.push(' '),
            1 => {}
            2 => s.push('\n'),
            3 => s.push_str(*t.choose(SPACES)),
            _ => s.push_str(*t.choose(PUNCT)),
        }
    }
    s
}

/// split a text into coarse tokens (words, numbers, quoted runs, single other chars), keeping blanks
pub fn coarse_tokens(src: &str) -> Vec<String> {
    let mut out = Vec::new();
    let mut cur = String::new();
    let mut kind = 0u8; // 0 none, 1 word, 2 space
    for c in src.chars() {
        let k = if c.is_alphanumeric() || c == '\'' || c == '_' {
            1
        } else if c == ' ' || c == '\t' {
            2
        } else {
            3
        };
        if k == 3 {
            if !cur.is_empty() {
                out.push(std::mem::take(&mut cur));
            }
            out.push(c.to_string());
            kind = 0;
        } else {
            if k != kind && !cur.is_empty() {
                out.push(std::mem::take(&mut cur));
            }
            cur.push(c);
            kind = k;
        }
    }
    if !cur.is_empty() {
        out.push(cur);
    }
    out
}

/// token-level mutations of a (mostly valid) text
pub fn mutate(src: &str, t: &mut Tape, other: &str) -> String {
    let mut toks = coarse_tokens(src);
    let n_mut = 1 + t.pick(4);
    for _ in 0..n_mut {
        if toks.is_empty() {
            toks.push(fragment(t));
            continue;
        }
        let i = t.pick(toks.len());
        match t.pick(9) {
            0 => {
                toks.remove(i);
            }
            1 => {
                let x = toks[i].clone();
                toks.insert(i, x);
            }
            2 => {
                let j = t.pick(toks.len());
                toks.swap(i, j);
            }
            3 => toks.insert(i, fragment(t)),
            4 => toks[i] = fragment(t),
            5 => {
                // splice a run of the other text
                let o = coarse_tokens(other);
                if !o.is_empty() {
                    let a = t.pick(o.len());
                    let b = (a + 1 + t.pick(8)).min(o.len());
                    for (k, x) in o[a..b].iter().enumerate() {
                        toks.insert((i + k).min(toks.len()), x.clone());
                    }
                }
            }
            6 => {
                // truncate
                toks.truncate(i);
            }
            7 => {
                // join two lines: drop a newline
                if let Some(p) = toks.iter().skip(i).position(|x| x == "\n") {
                    toks.remove(i + p);
                }
            }
            _ => {
                // insert a newline
                toks.insert(i, "\n".to_string());
            }
        }
    }
    toks.concat()
}

/// deep chains: `not not …`, `- - …`, `x at y at …`, nested blocks
pub fn deep(t: &mut Tape, max_depth: usize) -> String {
    let d = 1 + t.pick(max_depth);
    match t.pick(8) {
        0 => format!("say {}x", "not ".repeat(d)),
        1 => format!("say {}5", "- ".repeat(d)),
        2 => format!("say x{}", " at y".repeat(d)),
        3 => {
            let mut s = String::new();
            for i in 0..d {
                s.push_str(if i % 2 == 0 { "if x\n" } else { "while y\n" });
            }
            s.push_str("say 1\n");
            s
        }
        4 => format!("say 1{}", " + 2 * 3".repeat(d)),
        5 => format!("say {}x", "roll ".repeat(d)),
        6 => format!("x is {}", "a ".repeat(d)),
        _ => format!("say f{}", " taking g".repeat(d)),
    }
}
