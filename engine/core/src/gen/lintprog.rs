//! C18 generator: programs full of assignment-like statements whose right-hand sides range over
//! constants (of every awkward value) and non-constants, with targets of every kind, at any depth.

use super::consts::{constant_expr, unknown_expr};
use super::names;
use super::syntax::{Ctx, Lead, SynCfg, SynGen, POETIC_WORDS, STRS};
use crate::ast::*;
use crate::tape::Tape;

pub struct LintGen<'t, 'a> {
    pub t: &'t mut Tape<'a>,
    vars: Vec<Name>,
    budget: i32,
}

fn vec_first(e: Expr) -> Expr {
    e
}

impl<'t, 'a> LintGen<'t, 'a> {
    pub fn new(t: &'t mut Tape<'a>) -> Self {
        let vars = names::distinct(t, 6);
        LintGen { t, vars, budget: 14 }
    }

    fn target(&mut self) -> Lhs {
        let v = self.vars[self.t.pick(self.vars.len())].clone();
        match self.t.weighted(&[60, 15, 25]) {
            0 => Lhs::Ident(Ident::Name(v)),
            1 => Lhs::Ident(Ident::Pronoun),
            _ => {
                let idx = match self.t.pick(4) {
                    0 => Primary::Lit(Lit::Num(self.t.pick(4) as f64)),
                    1 => Primary::Lit(Lit::Str("k".into())),
                    2 => Primary::Lit(Lit::Str("multi\nline".into())),
                    _ => pvar(&self.vars[0].clone()),
                };
                Lhs::Subscript(Box::new(pvar(&v)), Box::new(idx))
            }
        }
    }

    /// a right-hand side: constant numeric (incl. awkward values), plain string literal, or something else
    fn rhs(&mut self, lead: Lead) -> Expr {
        let vars = self.vars.clone();
        match self.t.weighted(&[18, 18, 12, 14, 14, 12, 12]) {
            0 => num(*self.t.choose(&[0.0, 1.0, 5.0, 10.0, 100.0, 101.0, 20.0, 1000000.0, 123.0, 1e21])),
            1 => num(*self.t.choose(&[0.5, 3.14, 0.001, 10.01, 100.5, 0.25, 2.75, 1.0e-7, 5e-324])),
            2 => {
                // negative, -0, infinite, NaN
                match self.t.pick(6) {
                    0 => un(UnOp::Minus, num(5.0)),
                    1 => un(UnOp::Minus, num(0.0)),
                    2 => num(f64::INFINITY),
                    3 => bin(BinOp::Divide, num(0.0), num(0.0)),
                    4 => bin(BinOp::Minus, num(1.0), num(3.5)),
                    _ => un(UnOp::Minus, num(f64::INFINITY)),
                }
            }
            3 => {
                let e = constant_expr(self.t, 3);
                if lead == Lead::NoMinus && e.starts_with_minus() {
                    num(7.0)
                } else {
                    e
                }
            }
            4 => strlit(*self.t.choose(STRS)),
            5 => {
                let mut leaf = move |t: &mut Tape| -> Primary {
                    match t.pick(3) {
                        0 => pvar(&vars[t.pick(vars.len())]),
                        1 => Primary::Ident(Ident::Pronoun),
                        _ => Primary::Subscript(Box::new(pvar(&vars[1])), Box::new(Primary::Lit(Lit::Num(0.0)))),
                    }
                };
                let e = unknown_expr(self.t, 2, &mut leaf);
                if lead == Lead::NoMinus && e.starts_with_minus() {
                    var(&self.vars[0].clone())
                } else {
                    e
                }
            }
            _ => {
                // other literal kinds, logic, comparisons
                match self.t.pick(14) {
                    0 => lit(Lit::Bool(true)),
                    1 => lit(Lit::Null),
                    2 => lit(Lit::Mysterious),
                    3 => un(UnOp::Not, num(5.0)),
                    4 => bin(BinOp::Less, num(1.0), num(2.0)),
                    5 => bin(BinOp::Plus, strlit("a"), strlit("b")),
                    // pops and elements of literals: never constants (and runtime errors), whatever sits inside
                    6 => Expr::Primary(Primary::Pop(Box::new(Primary::Lit(Lit::Num(5.0))))),
                    7 => bin(BinOp::Multiply, num(2.0), vec_first(Expr::Primary(Primary::Pop(Box::new(Primary::Lit(Lit::Num(5.0))))))),
                    8 => Expr::Primary(Primary::Subscript(Box::new(Primary::Lit(Lit::Num(5.0))), Box::new(Primary::Lit(Lit::Num(1.0))))),
                    9 => bin(BinOp::Plus, num(1.0), Expr::Primary(Primary::Subscript(Box::new(Primary::Lit(Lit::Num(7.0))), Box::new(Primary::Lit(Lit::Num(7.0)))))),
                    10 => Expr::Primary(Primary::Pop(Box::new(Primary::Lit(Lit::Str("abc".into()))))),
                    11 => Expr::Primary(Primary::Subscript(Box::new(Primary::Lit(Lit::Str("abc".into()))), Box::new(Primary::Lit(Lit::Num(1.0))))),
                    12 => un(UnOp::Not, un(UnOp::Not, num(5.0))),
                    _ => un(UnOp::Minus, un(UnOp::Minus, num(5.0))),
                }
            }
        }
    }

    fn assignment_like(&mut self) -> Stmt {
        self.assignment_like_impl()
    }

    fn assignment_like_impl(&mut self) -> Stmt {
        if self.t.chance(1, 14) {
            // a plain `let` with a list of values (a runtime error when executed): never a constant assignment,
            // whatever its first element is
            let dest = self.target();
            let first = match self.t.pick(4) {
                0 => strlit("a"),
                1 => num(5.0),
                2 => strlit(*self.t.choose(STRS)),
                _ => num(0.5),
            };
            let mut value = vec![first];
            for _ in 0..1 + self.t.pick(2) {
                value.push(if self.t.chance(1, 2) { num(2.0) } else { strlit("b") });
            }
            return Stmt::Assign { dest, value, op: None };
        }
        match self.t.weighted(&[28, 10, 12, 8, 8, 16, 6, 6, 6]) {
            0 => {
                let dest = self.target();
                Stmt::Assign { dest, value: vec![self.rhs(Lead::Any)], op: None }
            }
            1 => {
                let dest = self.target();
                let op = *self.t.choose(&[BinOp::Plus, BinOp::Minus, BinOp::Multiply, BinOp::Divide]);
                Stmt::Assign { dest, value: vec![self.rhs(Lead::Any)], op: Some(op) }
            }
            2 => {
                // poetic assignment with an ordinary expression: must start with a literal or -number
                let dest = self.target();
                let e = match self.t.pick(5) {
                    0 => num(*self.t.choose(&[0.0, 5.0, 10.5, 100.0, 1e21])),
                    1 => un(UnOp::Minus, num(5.0)),
                    2 => strlit(*self.t.choose(STRS)),
                    3 => bin(BinOp::Plus, num(2.0), num(3.0)),
                    _ => {
                        let mut g = SynGen::new(self.t, SynCfg { name_pool: 2, ..SynCfg::default() });
                        g.expr(Ctx { lead: Lead::Literal, ..Ctx::new(2) })
                    }
                };
                Stmt::PoeticNum { dest, rhs: PoeticRhs::Expr(e) }
            }
            3 => {
                let dest = self.target();
                let n = 1 + self.t.pick(4);
                let words = (0..n)
                    .map(|k| {
                        let mut w = *self.t.choose(POETIC_WORDS);
                        if k == 0 && crate::kw::is_literal_word(w) {
                            w = "sweet";
                        }
                        PoeticElem::Word(w.to_string())
                    })
                    .collect();
                Stmt::PoeticNum { dest, rhs: PoeticRhs::Literal(words) }
            }
            4 => Stmt::PoeticStr { dest: self.target(), text: "some words".into() },
            5 => {
                let array = match self.target() {
                    Lhs::Ident(i) => Primary::Ident(i),
                    Lhs::Subscript(a, i) => Primary::Subscript(a, i),
                };
                Stmt::Push { array, value: Some(PushRhs::List(vec![self.rhs(Lead::Any)])) }
            }
            6 => {
                let v = self.vars[self.t.pick(self.vars.len())].clone();
                Stmt::Push { array: pvar(&v), value: Some(PushRhs::List(vec![num(1.0), num(2.0)])) }
            }
            7 => {
                let v = self.vars[self.t.pick(self.vars.len())].clone();
                Stmt::Push { array: pvar(&v), value: Some(PushRhs::Poetic(vec![PoeticElem::Word("fire".into())])) }
            }
            _ => {
                let v = self.vars[self.t.pick(self.vars.len())].clone();
                Stmt::Push { array: pvar(&v), value: None }
            }
        }
    }

    fn block(&mut self, depth: usize, fn_body: bool) -> Vec<Stmt> {
        let n = 1 + self.t.pick(4);
        let mut s = vec![];
        for _ in 0..n {
            if self.budget <= 0 {
                break;
            }
            self.budget -= 1;
            match self.t.weighted(&[62, if depth > 0 { 10 } else { 0 }, if depth > 0 { 8 } else { 0 }, if depth > 0 && !fn_body { 6 } else { 0 }, 8, 6]) {
                0 => s.push(self.assignment_like()),
                1 => {
                    let cond = self.rhs(Lead::Any);
                    // now and then an empty branch next to a full one
                    let then = if self.t.chance(1, 6) { vec![] } else { self.block(depth - 1, false) };
                    let els = if !fn_body && self.t.chance(1, 2) { Some(if self.t.chance(1, 8) { vec![] } else { self.block(depth - 1, false) }) } else { None };
                    s.push(Stmt::If { cond, then, els });
                }
                2 => {
                    let cond = self.rhs(Lead::Any);
                    let body = self.block(depth - 1, false);
                    s.push(if self.t.chance(1, 2) { Stmt::While { cond, body } } else { Stmt::Until { cond, body } });
                }
                3 => {
                    let name = self.vars[5].clone();
                    let params = vec![self.vars[4].clone()];
                    let body = self.block(depth - 1, true);
                    s.push(Stmt::Function { name, params, body });
                }
                4 => s.push(say(strlit("multi\nline"))),
                _ => {
                    let v = self.vars[self.t.pick(self.vars.len())].clone();
                    s.push(say(var(&v)));
                }
            }
        }
        s
    }

    pub fn program(&mut self) -> Program {
        let nb = 1 + self.t.weighted(&[70, 30]);
        Program { blocks: (0..nb).map(|_| self.block(3, false)).filter(|b| !b.is_empty()).collect() }
    }
}
