//! C08 generator: programs interleaving say / listen with other statements, plus input texts.

use super::names;
use super::values::gen_string;
use crate::ast::*;
use crate::tape::Tape;

pub struct IoGen<'t, 'a> {
    /// a `cat`-style program over a long input (more than the 8 KiB a buffered reader holds) was chosen
    pub cat: bool,
    pub t: &'t mut Tape<'a>,
    vars: Vec<Name>,
    func: Name,
    fparam: Name,
    marker: u32,
    io_budget: i32,
}

impl<'t, 'a> IoGen<'t, 'a> {
    pub fn new(t: &'t mut Tape<'a>) -> Self {
        let n = names::distinct(t, 7);
        IoGen { cat: false, t, vars: n[0..4].to_vec(), func: n[4].clone(), fparam: n[5].clone(), marker: 0, io_budget: 20 }
    }

    fn v(&mut self) -> Name {
        self.vars[self.t.pick(self.vars.len())].clone()
    }

    fn say_expr(&mut self) -> Expr {
        self.marker += 1;
        match self.t.weighted(&[25, 25, 15, 10, 10, 15]) {
            0 => strlit(&format!("m{}", self.marker)),
            1 => {
                let v = self.v();
                var(&v)
            }
            2 => {
                let v = self.v();
                bin(BinOp::Plus, bin(BinOp::Plus, strlit("<"), var(&v)), strlit(">"))
            }
            3 if self.t.chance(1, 4) => {
                // whole numbers beyond 2^53: their text is the shortest decimal that denotes them, not every digit
                num(*self.t.choose(&[18014398509481992.0, 144115188075855872.0, 4611686018427387904.0, 9223372036854775808.0, 121932631112635269.0, 1e19, 36028797018963968.0, 1e21]))
            }
            3 => num(self.t.pick(1000) as f64 / 8.0),
            4 => {
                // one in six: a text whose byte length sits on a buffer-size edge (31 .. 8193 bytes)
                let s = if self.t.chance(1, 6) {
                    super::values::sized_string(*self.t.choose(super::values::SIZE_EDGES), *self.t.choose(&['x', 'é', '日', '🎸']))
                } else {
                    gen_string(self.t)
                };
                strlit(&s)
            }
            _ => match self.t.pick(5) {
                0 => lit(Lit::Null),
                1 => lit(Lit::Bool(true)),
                2 => lit(Lit::Mysterious),
                3 => strlit(""),
                _ => strlit("multi\nline"),
            },
        }
    }

    fn io_stmt(&mut self) -> Stmt {
        self.io_budget -= 1;
        match self.t.weighted(&[50, 30, 20]) {
            0 => say(self.say_expr()),
            1 => {
                let v = self.v();
                Stmt::Input { dest: Some(Lhs::Ident(Ident::Name(v))) }
            }
            _ => Stmt::Input { dest: None },
        }
    }

    fn block(&mut self, depth: usize) -> Vec<Stmt> {
        let n = 1 + self.t.weighted(&[15, 25, 25, 20, 15]);
        let mut s = vec![];
        for _ in 0..n {
            if self.io_budget <= 0 {
                break;
            }
            match self.t.weighted(&[60, 10, if depth > 0 { 10 } else { 0 }, if depth > 0 { 8 } else { 0 }, 7, 5, if depth > 0 { 9 } else { 0 }, 4]) {
                6 => {
                    // the talking function in a loop header: it talks once per evaluation of the header, no more, no
                    // less, however the loop is left (header false, break on some pass, break inside a branch)
                    self.io_budget -= 4;
                    let c = names::FALLBACK[(depth + 3) % names::FALLBACK.len()];
                    let c = simple(&format!("{}pass", c));
                    s.push(put(num(0.0), &c));
                    let v = self.v();
                    let call = Expr::Primary(Primary::Call(self.func.clone(), vec![var(&c)]));
                    // what was heard decides: an empty line (or the end of input) ends an `until … is ""`-less loop
                    let cond = match self.t.pick(3) {
                        0 => bin(BinOp::NotEq, call, strlit("")),
                        1 => bin(BinOp::And, bin(BinOp::Less, var(&c), num(3.0)), bin(BinOp::NotEq, call, strlit("stop"))),
                        _ => bin(BinOp::Less, bin(BinOp::Plus, call, strlit("")), strlit("zzzzzzzz")),
                    };
                    let mut body = vec![Stmt::Inc { dest: Ident::Name(c.clone()), amount: 1 }, say(bin(BinOp::Plus, strlit("pass "), var(&c)))];
                    let leave_at = 1 + self.t.pick(3);
                    match self.t.pick(4) {
                        0 => body.push(Stmt::Break),
                        1 => body.push(Stmt::If { cond: bin(BinOp::GreaterEq, var(&c), num(leave_at as f64)), then: vec![Stmt::Break], els: None }),
                        2 => {
                            body.push(Stmt::If { cond: bin(BinOp::Less, var(&c), num(leave_at as f64)), then: vec![Stmt::Continue], els: None });
                            body.push(say(strlit("last pass")));
                            body.push(Stmt::Break);
                        }
                        _ => body.push(Stmt::If { cond: bin(BinOp::GreaterEq, var(&c), num(3.0)), then: vec![Stmt::Break], els: None }),
                    }
                    s.push(Stmt::While { cond, body });
                    // whatever comes next must find the input where the loop left it
                    s.push(Stmt::Input { dest: Some(Lhs::Ident(Ident::Name(v.clone()))) });
                    s.push(say(bin(BinOp::Plus, strlit("after loop:"), var(&v))));
                }
                7 => {
                    // the talking function as an operand of a say, as an argument of itself, in a branch condition
                    self.io_budget -= 3;
                    let v = self.v();
                    let call = |a: Expr, f: &Name| Expr::Primary(Primary::Call(f.clone(), vec![a]));
                    let f = self.func.clone();
                    match self.t.pick(3) {
                        0 => s.push(say(bin(BinOp::Plus, call(strlit("a"), &f), call(strlit("b"), &f)))),
                        1 => s.push(say(call(call(strlit("inner"), &f), &f))),
                        _ => s.push(Stmt::If { cond: bin(BinOp::Eq, call(var(&v), &f), strlit("")), then: vec![say(strlit("blank"))], els: Some(vec![say(strlit("not blank"))]) }),
                    }
                }
                0 => s.push(self.io_stmt()),
                1 => {
                    // other statements in between
                    let v = self.v();
                    let w = self.v();
                    s.push(put(bin(BinOp::Plus, var(&w), strlit("+")), &v));
                }
                2 => {
                    let c = names::FALLBACK[depth % names::FALLBACK.len()];
                    let c = simple(&format!("{}loop", c));
                    s.push(put(num(0.0), &c));
                    let k = 1 + self.t.pick(3);
                    let mut body = vec![Stmt::Inc { dest: Ident::Name(c.clone()), amount: 1 }];
                    body.extend(self.block(depth - 1));
                    s.push(Stmt::While { cond: bin(BinOp::Less, var(&c), num(k as f64)), body });
                }
                3 => {
                    let v = self.v();
                    let then = self.block(depth - 1);
                    let els = if self.t.chance(1, 2) { Some(self.block(depth - 1)) } else { None };
                    // the branch may depend on what was read
                    s.push(Stmt::If { cond: bin(BinOp::Eq, var(&v), strlit("")), then, els });
                }
                4 => {
                    // a function that talks
                    self.io_budget -= 2;
                    let v = self.v();
                    s.push(put(Expr::Primary(Primary::Call(self.func.clone(), vec![var(&v)])), &v));
                }
                _ => {
                    // listen into an array element
                    self.io_budget -= 1;
                    let v = self.vars[3].clone();
                    s.push(Stmt::Input { dest: Some(Lhs::Subscript(Box::new(pvar(&v)), Box::new(Primary::Lit(Lit::Num(self.t.pick(3) as f64))))) });
                    s.push(say(Expr::Primary(Primary::Subscript(Box::new(pvar(&v)), Box::new(Primary::Lit(Lit::Num(0.0)))))));
                }
            }
        }
        s
    }

    pub fn program(&mut self) -> Program {
        if self.t.chance(1, 40) {
            // echo the input line by line until a blank line / the end of input: many listens, long inputs
            self.cat = true;
            let x = self.vars[0].clone();
            let n = self.vars[1].clone();
            return Program::single(vec![
                put(num(0.0), &n),
                Stmt::Input { dest: Some(Lhs::Ident(Ident::Name(x.clone()))) },
                Stmt::Until {
                    cond: bin(BinOp::Eq, var(&x), strlit("")),
                    body: vec![Stmt::Inc { dest: Ident::Name(n.clone()), amount: 1 }, say(var(&x)), Stmt::Input { dest: Some(Lhs::Ident(Ident::Name(x.clone()))) }],
                },
                say(var(&n)),
            ]);
        }
        let mut s: Vec<Stmt> = vec![];
        for (k, v) in self.vars.clone().iter().enumerate().take(3) {
            s.push(put(strlit(&format!("init{}", k)), v));
        }
        let p = self.fparam.clone();
        let tmp = simple("heard");
        s.push(Stmt::Function {
            name: self.func.clone(),
            params: vec![p.clone()],
            body: vec![
                say(bin(BinOp::Plus, strlit("f:"), var(&p))),
                Stmt::Input { dest: Some(Lhs::Ident(Ident::Name(tmp.clone()))) },
                say(bin(BinOp::Plus, strlit("heard:"), var(&tmp))),
                Stmt::Return { value: var(&tmp) },
            ],
        });
        let body = self.block(2);
        s.extend(body);
        Program::single(s)
    }

    pub fn stdin(&mut self) -> String {
        if self.cat {
            // 9-40 KiB in lines of 20-120 characters, mostly multi-byte, so that characters straddle every buffer boundary
            let lines = 300 + self.t.pick(300);
            let salt = self.t.pick(7);
            let pool = ["日本語のテキスト", "ünï çödé ", "Здравствуйте ", "🎸 rock ", "plain ascii ", "€", "x"];
            let mut s = String::new();
            for i in 0..lines {
                // (mostly a function of the line number: the tape is too short to drive every line)
                let k = 1 + (i * 7 + salt) % 8;
                for j in 0..k {
                    s.push_str(pool[(i + j * 3 + salt) % pool.len()]);
                }
                s.push('\n');
            }
            if self.t.chance(1, 2) {
                s.push_str("last line without terminator");
            }
            return s;
        }
        let n = self.t.weighted(&[10, 15, 20, 20, 15, 10, 10]);
        let mut s = String::new();
        // one input in 250 has a line around 64 / 128 KiB (a single line longer than any line buffer)
        let huge_at = if self.t.chance(1, 250) { Some(self.t.pick(n.max(1))) } else { None };
        for i in 0..n {
            let line = match self.t.weighted(&[50, 15, 10, 15, 10]) {
                _ if huge_at == Some(i) => {
                    let bytes = *self.t.choose(&[65_535usize, 65_536, 65_537, 65_534, 70_000, 131_071, 131_072, 131_073]);
                    super::values::sized_string(bytes, *self.t.choose(&['x', 'é', '日', '🎸']))
                }
                0 => gen_string(self.t),
                1 => String::new(),
                2 if self.t.chance(1, 3) => super::values::sized_string(*self.t.choose(super::values::SIZE_EDGES), *self.t.choose(&['x', 'é', '日', '🎸'])),
                2 => "x".repeat(100 + self.t.pick(200)),
                3 => self.t.choose(&["ünï çödé", "日本語", "🎸 rock", "tab\there", "  spaced  ", "\"quoted\""]).to_string(),
                _ => format!("line{}", i),
            };
            // one line in 25 starts or ends with a character a reader might be tempted to treat specially: a byte-order
            // mark, a zero-width space, NUL, control-Z, a line or paragraph separator, a next-line character
            let line = if self.t.chance(1, 25) {
                let odd = *self.t.choose(&["\u{feff}", "\u{200b}", "\0", "\u{1a}", "\u{2028}", "\u{2029}", "\u{85}", "\u{fffe}", "\u{c}", "\u{b}"]);
                if self.t.chance(2, 3) {
                    format!("{}{}", odd, line)
                } else {
                    format!("{}{}", line, odd)
                }
            } else {
                line
            };
            // no line break inside a line, no CR directly in front of the terminator
            let line = line.replace('\n', " ");
            let line = line.trim_end_matches('\r').to_string();
            s.push_str(&line);
            let last = i + 1 == n;
            if !last || self.t.chance(2, 3) {
                s.push('\n');
            }
        }
        s
    }
}
