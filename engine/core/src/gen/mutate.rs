//! C07 generator: cut / join / cast / turn on variables, elements and pronouns,
//! with and without `into` and `with`; strings also enter through `listen`.

use super::arrays::ArrGen;
use super::names;
use super::values::{gen_number_expr, gen_string, STR_ATOMS};
use crate::ast::*;
use crate::model::{Limits, Machine, Scoping, V};
use crate::tape::Tape;
use std::collections::BTreeSet;

/// Arrays with several dictionary entries are not joined here: neither the statement nor the repository's tests fix
/// the order in which the dictionary values follow the sequence (rrss sorts by key text since the repair of F9), so
/// a different deterministic order must not raise an alarm. That the order is the same every time is C10's subject.
pub const MULTI_KEY_JOIN: bool = false;

pub struct MutGen<'t, 'a> {
    pub t: &'t mut Tape<'a>,
    vars: Vec<Name>,
    pub stdin: String,
    pub labels: BTreeSet<String>,
}

fn pe(p: Primary) -> Expr {
    Expr::Primary(p)
}

impl<'t, 'a> MutGen<'t, 'a> {
    pub fn new(t: &'t mut Tape<'a>) -> Self {
        let vars = names::distinct(t, 6);
        MutGen { t, vars, stdin: String::new(), labels: BTreeSet::new() }
    }

    fn line_string(&mut self) -> String {
        // any character except a line break can arrive through `listen`
        let mut s = gen_string(self.t);
        if self.t.chance(1, 4) {
            s.push_str(*self.t.choose(&["\"", "\"q\"", "\r", "\0", "(", "\\", "'"]));
        }
        s.replace('\n', " ")
    }

    /// statements that give `x` a value of the wanted flavour
    fn assign(&mut self, x: &Name, flavour: usize) -> Vec<Stmt> {
        match flavour {
            // string
            0 => {
                if self.t.chance(1, 2) {
                    let l = self.line_string();
                    self.stdin.push_str(&l);
                    self.stdin.push('\n');
                    self.labels.insert("string_via_listen".into());
                    vec![Stmt::Input { dest: Some(Lhs::Ident(Ident::Name(x.clone()))) }]
                } else {
                    let s = gen_string(self.t);
                    vec![put(strlit(&s), x)]
                }
            }
            // number
            1 => {
                let (e, _) = gen_number_expr(self.t);
                vec![put(e, x)]
            }
            // an array that came out of `cut` and had elements overwritten since (with strings, now and then with a number):
            // whatever a split remembers about its pieces must not outlive a write
            2 if self.t.chance(1, 5) => {
                self.labels.insert("array_from_cut_then_overwritten".into());
                let pieces = 2 + self.t.pick(4);
                let text: Vec<String> = (0..pieces).map(|_| gen_string(self.t).replace(',', ";")).collect();
                let mut out = vec![put(strlit(&text.join(",")), x), Stmt::Mutation { op: MutOp::Cut, operand: pvar(x), dest: None, param: Some(strlit(",")) }];
                for _ in 0..self.t.pick(3) {
                    let i = self.t.pick(pieces + 1);
                    let e = if self.t.chance(1, 3) { num(5.0) } else { strlit(&gen_string(self.t)) };
                    out.push(Stmt::Assign { dest: Lhs::Subscript(Box::new(pvar(x)), Box::new(Primary::Lit(Lit::Num(i as f64)))), value: vec![e], op: None });
                }
                if self.t.chance(1, 3) {
                    // a copy taken before a later write shares nothing with it
                    let y = self.vars[5].clone();
                    out.push(put(var(x), &y));
                    out.push(Stmt::Assign { dest: Lhs::Subscript(Box::new(pvar(x)), Box::new(Primary::Lit(Lit::Num(0.0)))), value: vec![num(9.0)], op: None });
                }
                out
            }
            // array of strings (sometimes with other kinds, sometimes with keys)
            2 => {
                let mut out = vec![put(lit(Lit::Mysterious), x)];
                let n = self.t.weighted(&[10, 20, 30, 25, 15]);
                if n == 0 {
                    out.push(Stmt::Push { array: pvar(x), value: None });
                }
                for _ in 0..n {
                    let e = if self.t.chance(1, 10) {
                        self.labels.insert("join_non_string_element".into());
                        gen_number_expr(self.t).0
                    } else {
                        let s = gen_string(self.t);
                        strlit(&s)
                    };
                    out.push(Stmt::Push { array: pvar(x), value: Some(PushRhs::List(vec![e])) });
                }
                let nk = if MULTI_KEY_JOIN { self.t.weighted(&[60, 20, 12, 8]) } else { self.t.weighted(&[75, 25]) };
                for k in 0..nk {
                    let key = ["k", "a", "zz"][k % 3];
                    let s = gen_string(self.t);
                    out.push(Stmt::Assign {
                        dest: Lhs::Subscript(Box::new(pvar(x)), Box::new(Primary::Lit(Lit::Str(key.into())))),
                        value: vec![strlit(&s)],
                        op: None,
                    });
                    self.labels.insert("join_with_dictionary_part".into());
                }
                // a list used as a queue: elements rolled off the front and others rocked onto the back, a few rounds
                // (the storage behind it wraps around)
                if n >= 2 && self.t.chance(1, 3) {
                    self.labels.insert("queue_history".into());
                    for _ in 0..1 + self.t.pick(3) {
                        for _ in 0..1 + self.t.pick(n) {
                            out.push(Stmt::Pop { array: pvar(x), dest: None });
                        }
                        for _ in 0..1 + self.t.pick(4) {
                            let e = if self.t.chance(1, 12) { num(7.0) } else { strlit(&gen_string(self.t)) };
                            out.push(Stmt::Push { array: pvar(x), value: Some(PushRhs::List(vec![e])) });
                        }
                    }
                }
                out
            }
            // anything
            _ => {
                let e = match self.t.pick(4) {
                    0 => lit(Lit::Bool(true)),
                    1 => lit(Lit::Null),
                    2 => lit(Lit::Mysterious),
                    _ => strlit(""),
                };
                vec![put(e, x)]
            }
        }
    }

    fn delimiter(&mut self, current: Option<&V>) -> Option<Expr> {
        match self.t.weighted(&[25, 10, 35, 20, 10]) {
            0 => None,
            1 => Some(strlit("")),
            2 => {
                // a piece of the operand itself: occurs at least once (ends, middle, overlapping runs)
                if let Some(V::Str(s)) = current {
                    let chars: Vec<char> = s.chars().filter(|c| *c != '"').collect();
                    if !chars.is_empty() {
                        // one in six: the whole text, the text but for its first / last character, the text and one more
                        if self.t.chance(1, 6) {
                            self.labels.insert("delimiter_as_long_as_the_text".into());
                            let whole: String = chars.iter().collect();
                            let d = match self.t.pick(4) {
                                0 => whole,
                                1 => chars[1..].iter().collect(),
                                2 => chars[..chars.len() - 1].iter().collect(),
                                _ => format!("{}x", whole),
                            };
                            return Some(strlit(&d));
                        }
                        let a = self.t.pick(chars.len());
                        let len = 1 + self.t.pick(3.min(chars.len() - a));
                        let d: String = chars[a..a + len].iter().collect();
                        self.labels.insert("delimiter_from_operand".into());
                        return Some(strlit(&d));
                    }
                }
                Some(strlit(","))
            }
            3 => Some(strlit(*self.t.choose(&[",", ", ", "a", "aa", " ", "ü", "é", "ab", "日", "xyzxyzxyzxyzxyzxyzxyzxyz"]))),
            _ => {
                self.labels.insert("wrong_kind_parameter".into());
                Some(match self.t.pick(4) {
                    0 => num(1.0),
                    1 => lit(Lit::Null),
                    2 => lit(Lit::Bool(true)),
                    _ => lit(Lit::Mysterious),
                })
            }
        }
    }

    fn radix(&mut self) -> Option<Expr> {
        match self.t.weighted(&[30, 45, 10, 5, 10]) {
            0 => None,
            1 => Some(num(*self.t.choose(&[2.0, 8.0, 10.0, 16.0, 36.0, 3.0, 35.0]))),
            2 => Some(num(*self.t.choose(&[0.0, 1.0, 37.0, 40.0, 100.0, 4294967296.0, 4294967298.0, 1e300]))),
            3 => Some(self.t.choose(&[num(2.5), num(10.5), bin(BinOp::Divide, num(0.0), num(0.0)), un(UnOp::Minus, num(1.0)), un(UnOp::Minus, num(10.0))]).clone()),
            _ => Some(match self.t.pick(3) {
                0 => strlit("16"),
                1 => lit(Lit::Null),
                _ => lit(Lit::Bool(true)),
            }),
        }
    }

    pub fn program(&mut self) -> Program {
        let lim = Limits { max_arr: 256, ..Limits::default() };
        let mut s: Vec<Stmt> = vec![];
        let n_steps = 1 + self.t.pick(4);
        // stdin grows while steps are generated: the model re-runs from scratch for every step (programs are tiny)
        for _ in 0..n_steps {
            let x = self.vars[self.t.pick(3)].clone();
            let d = self.vars[3 + self.t.pick(3)].clone();
            let kind = self.t.weighted(&[30, 22, 28, 20]);
            // operand flavour: usually the right one
            let right = [0usize, 2, if self.t.chance(1, 2) { 0 } else { 1 }, 1][kind];
            let flavour = if self.t.chance(1, 8) { self.t.pick(4) } else { right };
            s.extend(self.assign(&x, flavour));
            // what does the operand hold now?
            let mut m = Machine::new(&self.stdin, Scoping::Dynamic, lim);
            let mut alive = true;
            for st in &s {
                if m.exec_top(st).is_err() {
                    alive = false;
                    break;
                }
            }
            if !alive {
                break;
            }
            let cur = m.peek(&x).cloned();
            // operand form: variable, element of an array, or pronoun
            let form = self.t.weighted(&[55, 18, 17, 10]);
            let (operand, pre): (Primary, Vec<Stmt>) = match form {
                0 => (pvar(&x), vec![]),
                1 => {
                    // wrap the value into an array element first
                    let holder = self.vars[5].clone();
                    self.labels.insert("element_operand".into());
                    (
                        Primary::Subscript(Box::new(pvar(&holder)), Box::new(Primary::Lit(Lit::Num(1.0)))),
                        vec![
                            put(lit(Lit::Mysterious), &holder),
                            Stmt::Assign {
                                dest: Lhs::Subscript(Box::new(pvar(&holder)), Box::new(Primary::Lit(Lit::Num(1.0)))),
                                value: vec![var(&x)],
                                op: None,
                            },
                        ],
                    )
                }
                2 => {
                    self.labels.insert("pronoun_operand".into());
                    (Primary::Ident(Ident::Pronoun), vec![say(bin(BinOp::Plus, strlit("it="), var(&x)))])
                }
                _ => {
                    // through a pronoun inside a function whose parameter has the operand's name (it shadows the global):
                    // the statements are wrapped into the function further down
                    self.labels.insert("pronoun_operand_in_shadowing_function".into());
                    (Primary::Ident(Ident::Pronoun), vec![])
                }
            };
            s.extend(pre);
            let wrap_at = s.len();
            let mut watched: Vec<Name> = vec![x.clone()];
            if form == 1 {
                watched.push(self.vars[5].clone());
            }
            match kind {
                0 | 1 | 2 => {
                    let op = [MutOp::Cut, MutOp::Join, MutOp::Cast][kind];
                    let param = match op {
                        MutOp::Cut => self.delimiter(cur.as_ref()),
                        MutOp::Join => self.delimiter(None),
                        MutOp::Cast => {
                            if matches!(cur, Some(V::Num(_))) && !self.t.chance(1, 6) {
                                None
                            } else {
                                self.radix()
                            }
                        }
                    };
                    // without `into` the operand must be an identifier
                    let into = if matches!(operand, Primary::Subscript(..)) { true } else if form == 3 { false } else { self.t.chance(1, 2) };
                    let dest = if into {
                        watched.push(d.clone());
                        Some(Lhs::Ident(Ident::Name(d.clone())))
                    } else {
                        None
                    };
                    self.labels.insert(format!("{:?}:{}", op, if into { "into" } else { "in_place" }));
                    s.push(Stmt::Mutation { op, operand, dest, param });
                }
                _ => {
                    let dir = *self.t.choose(&[RoundDir::Up, RoundDir::Down, RoundDir::Nearest]);
                    self.labels.insert(format!("turn:{:?}", dir));
                    // now and then an operator expression as operand: nothing to round in place, a runtime error
                    let operand = if form != 3 && self.t.chance(1, 10) {
                        self.labels.insert("turn_on_operator_expression".into());
                        match self.t.pick(4) {
                            0 => bin(BinOp::Plus, pe(operand), var(&d)),
                            1 => un(UnOp::Minus, pe(operand)),
                            2 => bin(BinOp::Multiply, pe(operand.clone()), pe(operand)),
                            _ => bin(BinOp::Eq, pe(operand), var(&d)),
                        }
                    } else {
                        pe(operand)
                    };
                    s.push(Stmt::Rounding { dir, operand });
                }
            }
            if form == 3 {
                // F takes x / say "it=" plus x / <the mutation, on `it`> / say x / give back x   ...   put F taking <x changed> into d
                let mstmt = s.split_off(wrap_at);
                let fname = Name::Simple(format!("shadowing{}", ["a", "b", "c", "d", "e"][s.len() % 5]));
                let mut body = vec![say(bin(BinOp::Plus, strlit("it="), var(&x)))];
                body.extend(mstmt);
                body.push(say(bin(BinOp::Plus, strlit("in:"), var(&x))));
                body.push(Stmt::Return { value: var(&x) });
                let arg = match &cur {
                    Some(V::Str(_)) => bin(BinOp::Plus, var(&x), strlit("zz")),
                    Some(V::Num(_)) => bin(BinOp::Plus, var(&x), num(0.5)),
                    _ => var(&x),
                };
                let tmp = Name::Simple("shadowarg".into());
                s.push(Stmt::Function { name: fname.clone(), params: vec![x.clone()], body });
                s.push(put(arg, &tmp));
                s.push(put(Expr::Primary(Primary::Call(fname, vec![var(&tmp)])), &d));
                watched.push(d.clone());
            }
            // dump everything that could have changed
            let mut m = Machine::new(&self.stdin, Scoping::Dynamic, lim);
            let mut alive = true;
            for st in &s {
                if m.exec_top(st).is_err() {
                    alive = false;
                    break;
                }
            }
            if !alive {
                break;
            }
            for w in watched {
                ArrGen::dump_var(&w, m.peek(&w), &mut s);
            }
        }
        let _ = STR_ATOMS;
        Program::single(s)
    }
}
