//! C11 generator: poetic number literals as element lists, poetic string texts.

use crate::ast::PoeticElem;
use crate::kw;
use crate::tape::Tape;

const LETTERS: &[char] = &[
    'a', 'b', 'c', 'd', 'e', 'f', 'g', 'h', 'k', 'l', 'm', 'n', 'o', 'r', 's', 't', 'u', 'w', 'y', 'z', 'A', 'B', 'Q', 'Z', 'é', 'ü', 'ñ', 'Å', 'λ', 'ж', 'Ω', 'Я',
];

pub fn word_of_len(t: &mut Tape, len: usize) -> String {
    let mut s: String = (0..len).map(|_| *t.choose(LETTERS)).collect();
    // apostrophes inside the word do not count
    if len >= 2 && t.chance(1, 6) {
        let pos = 1 + t.pick(len - 1);
        let byte = s.char_indices().nth(pos).map(|(i, _)| i).unwrap_or(s.len());
        s.insert(byte, '\'');
    }
    s
}

pub fn word(t: &mut Tape, first: bool) -> String {
    for _ in 0..8 {
        let w = match t.weighted(&[55, 20, 25, if first { 0 } else { 6 }]) {
            // a digit token as a word (never first: there it starts an expression); it counts by its characters
            3 => return t.choose(&["5", "42", "007", "125", "0", "1000000"]).to_string(),
            0 => {
                let len = match t.weighted(&[50, 20, 20, 10]) {
                    0 => 1 + t.pick(9),
                    1 => *t.choose(&[10usize, 20, 30]),
                    2 => 11 + t.pick(9),
                    _ => 21 + t.pick(5),
                };
                word_of_len(t, len)
            }
            1 => {
                // keywords and aliases used as words, in any case
                let all = kw::all_aliases();
                let a = all[t.pick(all.len())];
                match t.pick(3) {
                    0 => a.to_string(),
                    1 => a.to_uppercase(),
                    _ => {
                        let mut c = a.chars();
                        c.next().map(|f| f.to_uppercase().collect::<String>() + c.as_str()).unwrap_or_default()
                    }
                }
            }
            _ => t.choose(crate::gen::syntax::POETIC_WORDS).to_string(),
        };
        // a word ending in 's / 're would be split by the lexer; one that is only apostrophes vanishes
        let lw = w.to_lowercase();
        if lw.ends_with("'s") || lw.ends_with("'re") || w.ends_with('\'') || w.starts_with('\'') || w.is_empty() {
            continue;
        }
        if first && kw::is_literal_word(&w) {
            continue;
        }
        // the renderer must get back exactly this token: it has to be a plain word or a keyword
        if !w.chars().all(|c| c.is_alphabetic() || c == '\'') {
            continue;
        }
        return w;
    }
    "desire".to_string()
}

#[derive(Clone, Copy, Debug)]
pub struct PoeticCfg {
    pub orphan_suffix: bool,
    pub max_digits_each_side: usize,
}

/// element list; returns also the number of digits before / after the first period
pub fn literal(t: &mut Tape, cfg: PoeticCfg) -> Vec<PoeticElem> {
    let n_words = match t.weighted(&[45, 35, 14, 6]) {
        0 => 1 + t.pick(3),
        1 => 3 + t.pick(8),
        2 => 10 + t.pick(31),
        _ => 40 + t.pick(cfg.max_digits_each_side.saturating_sub(40).max(1)),
    };
    let mut v: Vec<PoeticElem> = vec![];
    // 0 = orphan position, 1 = after word/hyphen part, 2 = after apostrophe suffix
    let mut prev = 0u8;
    let mut words = 0usize;
    let mut digits_before = 0usize;
    let mut digits_after = 0usize;
    let mut seen_dot = false;
    let long = n_words > 12;
    while words < n_words {
        let k = if long { t.weighted(&[88, 3, 3, 6]) } else { t.weighted(&[62, 12, 12, 14]) };
        // nothing attaches to a digit token: `5's`, `5-cold` and `5.` are other token sequences
        let after_digit = matches!(v.last(), Some(PoeticElem::Word(w)) if w.starts_with(|c: char| c.is_ascii_digit()));
        let k = if after_digit { 0 } else { k };
        match k {
            1 if prev != 0 || cfg.orphan_suffix => {
                let s = if prev == 1 { *t.choose(&["'s", "'re", "'S", "'RE", "'Re", "'rE"]) } else { *t.choose(&["'s", "'re"]) };
                if prev == 0 {
                    // an orphan suffix is a digit of its own
                    if seen_dot {
                        digits_after += 1
                    } else {
                        digits_before += 1
                    }
                }
                v.push(PoeticElem::Suffix(s.to_string()));
                prev = 2;
            }
            2 if !v.is_empty() && (prev != 0 || cfg.orphan_suffix) => {
                let mut w = word(t, false);
                if w.starts_with(|c: char| c.is_ascii_digit()) {
                    // "-5" would be a negative number, not a hyphenated part
                    w = "desire".into();
                }
                if prev == 0 {
                    if seen_dot {
                        digits_after += 1
                    } else {
                        digits_before += 1
                    }
                }
                v.push(PoeticElem::Suffix(format!("-{}", w)));
                prev = 1;
            }
            // (a period directly after a digit token would be part of that number)
            3 if !matches!(v.last(), Some(PoeticElem::Word(w)) if w.starts_with(|c: char| c.is_ascii_digit())) => {
                v.push(PoeticElem::Dot);
                seen_dot = true;
                prev = 0;
            }
            _ => {
                let limit_hit = if seen_dot { digits_after >= cfg.max_digits_each_side } else { digits_before >= cfg.max_digits_each_side };
                if limit_hit {
                    break;
                }
                let w = word(t, v.is_empty());
                v.push(PoeticElem::Word(w));
                if seen_dot {
                    digits_after += 1
                } else {
                    digits_before += 1
                }
                words += 1;
                prev = 1;
            }
        }
    }
    if !v.iter().any(|e| !matches!(e, PoeticElem::Dot)) {
        v.push(PoeticElem::Word(word(t, v.is_empty())));
    }
    v
}

/// very long literals: up to ~430 digits on either side of the period with runs of zero digits, so that the leading
/// digits lie beyond 10^308 and the trailing ones beyond 10^-308 (overflow / underflow of the powers of ten)
pub fn extreme_literal(t: &mut Tape) -> Vec<PoeticElem> {
    fn side(t: &mut Tape) -> usize {
        match t.pick(5) {
            0 => 1 + t.pick(4),
            1 => 290 + t.pick(40),
            2 => 305 + t.pick(125),
            3 => 1 + t.pick(330),
            _ => 300 + t.pick(24),
        }
    }
    fn fill(t: &mut Tape, n: usize, v: &mut Vec<PoeticElem>) {
        // a run of zero digits first (none / all / some), then mostly non-zero digits
        let zeros = match t.pick(4) {
            0 => 0,
            1 => n,
            2 => n.saturating_sub(1 + t.pick(3)),
            _ => t.pick(n + 1),
        };
        for i in 0..n {
            let len = if i < zeros || t.chance(1, 8) { *t.choose(&[10usize, 20]) } else { 1 + t.pick(9) };
            let letter = *t.choose(&['x', 'q', 'z', 'j']);
            v.push(PoeticElem::Word(std::iter::repeat(letter).take(len).collect()));
        }
    }
    let mut v = vec![];
    if t.chance(1, 12) {
        // one enormous word (its length beyond what 8 or 16 bits can count) among a few ordinary ones
        let len = *t.choose(&[255usize, 256, 257, 300, 1000, 65_535, 65_536, 65_537, 70_003]);
        let at = t.pick(3);
        for i in 0..3 {
            if i == at {
                v.push(PoeticElem::Word("x".repeat(len)));
            } else {
                v.push(PoeticElem::Word("q".repeat(1 + t.pick(9))));
            }
            if i == 0 && t.chance(1, 3) {
                v.push(PoeticElem::Dot);
            }
        }
        return v;
    }
    let before = side(t);
    fill(t, before, &mut v);
    if t.chance(2, 3) {
        v.push(PoeticElem::Dot);
        let after = side(t);
        fill(t, after, &mut v);
    }
    v
}

/// are all quotes and parentheses closed on this line (as the lexer pairs them)?
pub fn closed_on_line(text: &str) -> bool {
    let mut it = text.chars();
    while let Some(c) = it.next() {
        match c {
            '"' => {
                if !it.any(|d| d == '"') {
                    return false;
                }
            }
            '(' => {
                if !it.any(|d| d == ')') {
                    return false;
                }
            }
            _ => {}
        }
    }
    true
}

const STR_ATOMS: &[&str] = &[
    "hello", " ", "  ", "world", "\"quoted\"", "(comment-looking)", "it's", "rock'n'roll", ",", ".", "!", "?", "ünï", "çödé", "日本", "🎸", "5", "3.14",
    "say", "put x into y", "'s", "'n'", "\t", "ab1", "x_", "_", "-", "+", "&", "<=", "\"\"", "()", "\"a(b\"", "(a\"b)", "else", "says", "\\", "`", "1e3", ";",
    "\"", "(", ")",
    // typographic quotes and control characters are ordinary text
    "„Halt!“ rief er", "6“ nails", "“", "‘quoted’", "”“", "\u{1b}[2J", "\u{9b}x",
];

pub fn string_text(t: &mut Tape) -> String {
    let n = t.weighted(&[6, 20, 25, 20, 15, 14]);
    let mut s = String::new();
    for _ in 0..n {
        s.push_str(*t.choose(STR_ATOMS));
        if t.chance(1, 2) {
            s.push(' ');
        }
    }
    // close what is open (texts that leave a quote or parenthesis open swallow the following lines: finding F11)
    let mut guard = 0;
    while !closed_on_line(&s) && guard < 8 {
        guard += 1;
        // find what is open by re-scanning
        let mut open: Option<char> = None;
        let mut it = s.chars();
        while let Some(c) = it.next() {
            if c == '"' {
                if !it.any(|d| d == '"') {
                    open = Some('"');
                }
            } else if c == '(' {
                if !it.any(|d| d == ')') {
                    open = Some(')');
                }
            }
        }
        if let Some(c) = open {
            s.push(c);
        }
    }
    if !closed_on_line(&s) {
        return "plain".into();
    }
    s
}
