//! Grammar-directed generator of mini-AST programs: every tree it produces is
//! expressible in rrss's grammar, and the places where the greedy parser makes a
//! tree inexpressible are excluded by construction (see DESIGN.md 1.3 / Appendix B).

use super::names;
use crate::ast::*;
use crate::kw;
use crate::tape::Tape;

#[derive(Clone, Debug)]
pub struct SynCfg {
    pub max_expr_depth: usize,
    pub max_block_depth: usize,
    pub max_block_len: usize,
    pub functions: bool,
    pub poetic: bool,
    /// poetic literals may start (or continue after a period) with a suffix element
    pub orphan_suffix: bool,
    pub multi_blocks: bool,
    pub name_pool: usize,
    /// chains of several hundred links now and then (pretty-printing such a tree is quadratic: off where trees are dumped)
    pub giant_chains: bool,
}

impl Default for SynCfg {
    fn default() -> Self {
        SynCfg {
            max_expr_depth: 5,
            max_block_depth: 3,
            max_block_len: 5,
            functions: true,
            poetic: true,
            orphan_suffix: true,
            multi_blocks: true,
            name_pool: 8,
            giant_chains: false,
        }
    }
}

#[derive(Copy, Clone, Debug, PartialEq, Eq)]
pub enum Lead {
    Any,
    NoMinus,
    NoNot,
    /// first token must be a literal, or `-` directly followed by a number
    Literal,
}

#[derive(Copy, Clone, Debug)]
pub struct Ctx {
    pub depth: usize,
    pub lead: Lead,
    /// inside the last element of a multi-element list: nested lists stay single
    pub no_lists: bool,
    /// whatever follows would be swallowed by a call's argument list
    pub no_trailing_call: bool,
}

impl Ctx {
    pub fn new(depth: usize) -> Self {
        Ctx { depth, lead: Lead::Any, no_lists: false, no_trailing_call: false }
    }
    fn deeper(self) -> Self {
        Ctx { depth: self.depth.saturating_sub(1), ..self }
    }
    fn inner(self) -> Self {
        // operand that is neither first nor last: no constraints except depth / list state
        Ctx { lead: Lead::Any, no_trailing_call: false, ..self }
    }
}

pub const NUMS: &[f64] = &[
    0.0, 1.0, 2.0, 5.0, 10.0, 0.5, 3.14, 1000.0, 100.0, 255.0, 0.001, 7.0, 42.0, 1e21, 123456789.0, 0.1, 9007199254740993.0,
    65.0, 36.0, f64::INFINITY, 1e300, 5e-324,
];
pub const STRS: &[&str] = &[
    "", "a", "hello world", "multi\nline", "ünï", "5", " padded ", "true", "it's", "(paren)", "a, b & c", "null", "1e3",
    "x\ty", "mysterious", "say 5", ".", "-1", "ab1", "tab\there", "two\n\nblank", "ends in a break\n", "\n", "\n\nstarts with two", "dos\r\nbreak\r\n", "‘curly’ “quotes”", "esc\u{1b}[0m",
    "C:\\temp\\new", "back\\slash", "\\n", "\\\\", "sep\u{2028}arator", "next\u{85}line", "para\u{2029}graph", "\u{feff}bom", "form\u{c}feed", "fo'c'sle",
];
pub const POETIC_WORDS: &[&str] = &[
    "a", "an", "the", "lovestruck", "ladykiller", "rock", "roll", "sweet", "desire", "fire", "ice", "cold", "heartbreaker",
    "days", "night", "dreams", "Tommy", "ünï", "don't", "rock'n'roll", "says", "taking", "not", "it", "without", "mysteriousness",
    "abcdefghij", "abcdefghijklmnopqrst", "I", "my", "with", "ain't", "nothing", "true", "empty", "up", "Ж", "λόγος",
    "abcdefghijk", "extraordinarily", "incomprehensibilities", "xx", "xxx", "xxxx", "xxxxx", "xxxxxx", "xxxxxxx", "xxxxxxxx",
    "xxxxxxxxx",
];
pub const POETIC_STRS: &[&str] = &[
    "hello", "", " leading blank", "trailing blank ", "say 5", "it's \"quoted\" text", "(comment-looking) text", "a, b. c!",
    "ünï çödé", "1 2 3", "put x into y", "x's", "tab\there", "   ", "\"\"", "()", "'n'", "ab1 x_", "if else while", "(a)'s",
];

pub struct SynGen<'t, 'a> {
    pub t: &'t mut Tape<'a>,
    pub cfg: SynCfg,
    pub names: Vec<Name>,
    pub funcs: Vec<Name>,
}

impl<'t, 'a> SynGen<'t, 'a> {
    pub fn new(t: &'t mut Tape<'a>, cfg: SynCfg) -> Self {
        let n = cfg.name_pool;
        let all = names::distinct(t, n + 3);
        let (names, funcs) = all.split_at(n);
        SynGen { t, cfg, names: names.to_vec(), funcs: funcs.to_vec() }
    }

    /// how many `up`s / `downs`: 1-4, now and then more than a byte can count
    fn amount(&mut self) -> u32 {
        let a = 1 + self.t.weighted(&[70, 20, 6, 3, 1]) as u32;
        if a == 5 {
            250 + self.t.pick(60) as u32
        } else {
            a
        }
    }

    pub fn name(&mut self) -> Name {
        self.names[self.t.pick(self.names.len())].clone()
    }
    pub fn fname(&mut self) -> Name {
        if self.t.chance(1, 5) {
            self.name()
        } else {
            self.funcs[self.t.pick(self.funcs.len())].clone()
        }
    }
    pub fn ident(&mut self) -> Ident {
        if self.t.chance(1, 6) {
            Ident::Pronoun
        } else {
            Ident::Name(self.name())
        }
    }

    pub fn lit(&mut self) -> Lit {
        match self.t.weighted(&[6, 4, 1, 1, 1, 1, 2]) {
            6 => {
                // a full-precision decimal: 53 random mantissa bits scaled by a power of ten, written with the 16-17
                // digits that denote exactly this number (no shortcut through a small integer mantissa)
                let m = ((self.t.raw() as u64) << 21) | ((self.t.raw() as u64) >> 11);
                let k = self.t.pick(10) as i32 - 3;
                let v = (m as f64 / 9007199254740992.0) * 10f64.powi(k);
                let v: f64 = format!("{}", v).parse().unwrap();
                Lit::Num(v)
            }
            0 => Lit::Num(*self.t.choose(NUMS)),
            1 => Lit::Str(self.t.choose(STRS).to_string()),
            2 => Lit::Bool(true),
            3 => Lit::Bool(false),
            4 => Lit::Null,
            _ => Lit::Mysterious,
        }
    }

    // ------------------------------------------------------------ expressions

    pub fn expr(&mut self, c: Ctx) -> Expr {
        self.logical(c)
    }

    /// left-associative chain at one precedence level
    fn chain(
        &mut self,
        c: Ctx,
        ops: &[BinOp],
        next: fn(&mut Self, Ctx) -> Expr,
        link_weight: u32,
    ) -> Expr {
        let n_links = if c.depth == 0 { 0 } else { self.t.weighted(&[100 - link_weight.min(90), link_weight, link_weight / 4]) };
        // now and then a long chain (17-40 links): beyond inline stacks and recursion shortcuts of 16
        let n_links = if n_links == 2 && self.t.chance(1, 12) { 17 + self.t.pick(24) } else { n_links };
        // and very rarely a chain of several hundred links (chunked or iterative walks with a boundary)
        let n_links = if n_links >= 17 && self.cfg.giant_chains && self.t.chance(1, 12) { 500 + self.t.pick(160) } else { n_links };
        let chosen: Vec<BinOp> = (0..n_links).map(|_| *self.t.choose(ops)).collect();
        // first operand: carries `lead`; followed by an operator, so a trailing call matters only for `and`
        let first_ctx = Ctx {
            lead: c.lead,
            no_trailing_call: if n_links == 0 { c.no_trailing_call } else { chosen[0] == BinOp::And },
            ..c.deeper()
        };
        let mut e = next(self, first_ctx);
        for (i, op) in chosen.iter().enumerate() {
            let last_link = i + 1 == n_links;
            let follow_and = !last_link && chosen[i + 1] == BinOp::And;
            let tail_ctx = Ctx { lead: Lead::Any, no_trailing_call: if last_link { c.no_trailing_call } else { follow_and }, ..c.deeper() };
            let rhs = self.list(tail_ctx, next);
            e = Expr::Binary { op: *op, lhs: Box::new(e), rhs };
        }
        e
    }

    /// operand list of a binary operator (also `let`/`rock` value lists)
    pub fn list(&mut self, c: Ctx, next: fn(&mut Self, Ctx) -> Expr) -> Vec<Expr> {
        let n = if c.no_lists || c.depth == 0 { 1 } else { 1 + self.t.weighted(&[80, 14, 5, 1]) };
        // now and then a wide list: beyond the interpreter's inline capacities (8) and small-size fast paths
        let n = if n == 4 { 5 + self.t.pick(9) } else { n };
        if n == 1 {
            return vec![next(self, c)];
        }
        let mut v = Vec::new();
        for _ in 0..n - 1 {
            // first and middle elements: unary level, must not end in a call (the comma would be an argument separator)
            v.push(self.unary(Ctx { lead: Lead::Any, no_trailing_call: true, no_lists: true, ..c.deeper() }));
        }
        v.push(next(self, Ctx { lead: Lead::Any, no_lists: true, ..c }));
        v
    }

    fn logical(&mut self, c: Ctx) -> Expr {
        self.chain(c, &[BinOp::And, BinOp::Or, BinOp::Nor], Self::cmp, 18)
    }

    fn cmp(&mut self, c: Ctx) -> Expr {
        let n_links = if c.depth == 0 { 0 } else { self.t.weighted(&[70, 24, 6]) };
        if n_links == 0 {
            return self.term(c);
        }
        let is_chain = self.t.chance(1, 2);
        let mut e = self.term(Ctx { lead: c.lead, no_trailing_call: false, ..c.deeper() });
        for i in 0..n_links {
            let last = i + 1 == n_links;
            let tail = Ctx { lead: Lead::Any, no_trailing_call: last && c.no_trailing_call, ..c.deeper() };
            if is_chain {
                let op = *self.t.choose(&[BinOp::Eq, BinOp::NotEq, BinOp::Greater, BinOp::GreaterEq, BinOp::Less, BinOp::LessEq]);
                // `is not X` spells NotEq: an Eq operand must not start with `not`
                let lead = if op == BinOp::Eq { Lead::NoNot } else { Lead::Any };
                let rhs = self.term(Ctx { lead, ..tail });
                e = Expr::Binary { op, lhs: Box::new(e), rhs: vec![rhs] };
            } else {
                let op = *self.t.choose(&[BinOp::NotEq, BinOp::Greater, BinOp::GreaterEq, BinOp::Less, BinOp::LessEq]);
                let rhs = self.list(tail, Self::term);
                e = Expr::Binary { op, lhs: Box::new(e), rhs };
            }
        }
        e
    }

    fn term(&mut self, c: Ctx) -> Expr {
        self.chain(c, &[BinOp::Plus, BinOp::Minus], Self::factor, 30)
    }

    fn factor(&mut self, c: Ctx) -> Expr {
        self.chain(c, &[BinOp::Multiply, BinOp::Divide], Self::unary, 25)
    }

    pub fn unary(&mut self, c: Ctx) -> Expr {
        if c.lead == Lead::Literal {
            // literal, or `-` number
            if self.t.chance(1, 4) {
                let v = *self.t.choose(NUMS);
                return Expr::Unary { op: UnOp::Minus, operand: Box::new(Expr::Primary(Primary::Lit(Lit::Num(v)))) };
            }
            let base = Primary::Lit(self.lit());
            return Expr::Primary(self.subscripts(base, c));
        }
        if c.depth > 0 && self.t.chance(1, 6) {
            let mut ops = vec![UnOp::Minus, UnOp::Not];
            if c.lead == Lead::NoMinus {
                ops.retain(|o| *o != UnOp::Minus);
            }
            if c.lead == Lead::NoNot {
                ops.retain(|o| *o != UnOp::Not);
            }
            let op = *self.t.choose(&ops);
            let operand = self.unary(Ctx { lead: Lead::Any, ..c.deeper() });
            return Expr::Unary { op, operand: Box::new(operand) };
        }
        Expr::Primary(self.primary(c))
    }

    /// add 0..2 subscripts to a base that does not swallow `at`
    fn subscripts(&mut self, base: Primary, c: Ctx) -> Primary {
        if base.swallows_at() {
            return base;
        }
        let n = if c.depth == 0 { 0 } else { self.t.weighted(&[80, 15, 4, 1]) };
        let n = if n == 3 { 3 + self.t.pick(8) } else { n };
        let mut p = base;
        for i in 0..n {
            let last = i + 1 == n;
            let idx = self.nonsub(Ctx { lead: Lead::Any, no_trailing_call: last && c.no_trailing_call, ..c.deeper() }, !last);
            p = Primary::Subscript(Box::new(p), Box::new(idx));
        }
        p
    }

    pub fn primary(&mut self, c: Ctx) -> Primary {
        let base = self.nonsub(c, false);
        self.subscripts(base, c)
    }

    /// identifier, call, literal or roll-expression; `no_greedy`: must not swallow a following `at`
    fn nonsub(&mut self, c: Ctx, no_greedy: bool) -> Primary {
        let can_call = c.depth > 0 && !c.no_trailing_call && !no_greedy;
        let can_pop = c.depth > 0 && !no_greedy;
        match self.t.weighted(&[45, 35, if can_call { 10 } else { 0 }, if can_pop { 6 } else { 0 }]) {
            0 => Primary::Ident(self.ident()),
            1 => Primary::Lit(self.lit()),
            2 => {
                let name = self.fname();
                let args = self.args(c);
                Primary::Call(name, args)
            }
            _ => {
                let p = self.primary(Ctx { lead: Lead::Any, ..c.deeper() });
                Primary::Pop(Box::new(p))
            }
        }
    }

    pub fn args(&mut self, c: Ctx) -> Vec<Expr> {
        let n = 1 + self.t.weighted(&[60, 29, 9, 2]);
        let n = if n == 4 { 5 + self.t.pick(9) } else { n };
        (0..n)
            .map(|i| {
                let last = i + 1 == n;
                self.unary(Ctx { lead: Lead::Any, no_lists: true, no_trailing_call: if last { c.no_trailing_call } else { true }, ..c.deeper() })
            })
            .collect()
    }

    pub fn lhs(&mut self, c: Ctx) -> Lhs {
        let id = self.ident();
        match self.subscripts(Primary::Ident(id.clone()), c) {
            Primary::Subscript(a, i) => Lhs::Subscript(a, i),
            _ => Lhs::Ident(id),
        }
    }

    // ------------------------------------------------------------ poetic literals

    pub fn poetic_word(&mut self, first: bool) -> String {
        loop {
            let w = self.t.choose(POETIC_WORDS).to_string();
            // a literal word in first position turns the right-hand side into an expression
            if first && (kw::is_literal_word(&w) || kw::is_literal_word(w.trim_end_matches("'s"))) {
                if self.t.exhausted() {
                    return "lovestruck".into();
                }
                continue;
            }
            return w;
        }
    }

    pub fn poetic(&mut self) -> Vec<PoeticElem> {
        // one literal in three from the richer word stock of the poetic-literal generator: every keyword and alias in
        // any letter case (also in first position), digit tokens as words, long words
        if self.t.chance(1, 3) {
            let v = super::poetic::literal(self.t, super::poetic::PoeticCfg { orphan_suffix: self.cfg.orphan_suffix, max_digits_each_side: 12 });
            if v.len() <= 24 {
                return v;
            }
        }
        let n = 1 + self.t.weighted(&[30, 30, 20, 10, 5, 3, 2]);
        let mut v: Vec<PoeticElem> = Vec::new();
        // 0 = start of literal / right after a dot (a suffix here is an orphan), 1 = after a word or
        // hyphenated part, 2 = after an apostrophe suffix
        let mut prev = 0u8;
        for _ in 0..n {
            let k = self.t.weighted(&[70, 8, 8, 8, 6]);
            match k {
                1 if prev != 0 || self.cfg.orphan_suffix => {
                    // only a suffix glued to a word may be spelled in upper case
                    let s = if prev == 1 { *self.t.choose(&["'s", "'re", "'S", "'RE", "'Re"]) } else { *self.t.choose(&["'s", "'re"]) };
                    v.push(PoeticElem::Suffix(s.to_string()));
                    prev = 2;
                }
                2 if !v.is_empty() && (prev != 0 || self.cfg.orphan_suffix) => {
                    let w = self.poetic_word(false);
                    v.push(PoeticElem::Suffix(format!("-{}", w.trim_matches('\''))));
                    prev = 1;
                }
                3 => {
                    v.push(PoeticElem::Dot);
                    prev = 0;
                }
                _ => {
                    let w = self.poetic_word(v.is_empty());
                    v.push(PoeticElem::Word(w));
                    prev = 1;
                }
            }
        }
        if !v.iter().any(|e| !matches!(e, PoeticElem::Dot)) {
            let w = self.poetic_word(v.is_empty());
            v.push(PoeticElem::Word(w));
        }
        v
    }

    // ------------------------------------------------------------ statements

    pub fn block(&mut self, depth: usize, fn_body: bool) -> Vec<Stmt> {
        let n = self.t.pick(self.cfg.max_block_len + 1);
        let mut v = Vec::new();
        for i in 0..n {
            let s = self.stmt(depth);
            let terminator = matches!(s, Stmt::If { els: Some(_), .. });
            v.push(s);
            if fn_body && terminator {
                let _ = i;
                break; // an `if … else` ends a function body
            }
        }
        v
    }

    pub fn stmt(&mut self, depth: usize) -> Stmt {
        let d = self.cfg.max_expr_depth;
        let c = Ctx::new(d);
        let compound = if depth > 0 { 1 } else { 0 };
        let w: [u32; 19] = [
            10,                                                  // assign
            5,                                                   // compound assign
            if self.cfg.poetic { 7 } else { 0 },                 // poetic num
            if self.cfg.poetic { 4 } else { 0 },                 // poetic str
            8 * compound,                                        // if
            5 * compound,                                        // while
            3 * compound,                                        // until
            3,                                                   // inc
            3,                                                   // dec
            3,                                                   // input
            10,                                                  // output
            5,                                                   // mutation
            4,                                                   // rounding
            2,                                                   // continue
            2,                                                   // break
            6,                                                   // push
            4,                                                   // pop
            4,                                                   // return
            if self.cfg.functions { 4 * compound + 3 } else { 0 }, // function / call
        ];
        match self.t.weighted(&w) {
            0 => {
                let dest = self.lhs(c);
                // a plain `let` list with several values parses (and fails at run time)
                let multi = self.t.chance(1, 12);
                let value = if multi {
                    self.list(Ctx { lead: Lead::NoMinus, ..c }, Self::expr_fn)
                } else {
                    vec![self.expr(c)]
                };
                // `let x be -5` would be a compound assignment: lists that must be spelled with `let` never start with minus
                let value = if value.len() > 1 && value[0].starts_with_minus() { vec![value[0].clone()] } else { value };
                Stmt::Assign { dest, value, op: None }
            }
            1 => {
                let dest = self.lhs(c);
                let op = *self.t.choose(&[BinOp::Plus, BinOp::Minus, BinOp::Multiply, BinOp::Divide]);
                let value = self.list(c, Self::expr_fn);
                Stmt::Assign { dest, value, op: Some(op) }
            }
            2 => {
                let dest = self.lhs(c);
                let rhs = if self.t.chance(1, 3) {
                    PoeticRhs::Expr(self.expr(Ctx { lead: Lead::Literal, ..c }))
                } else {
                    PoeticRhs::Literal(self.poetic())
                };
                Stmt::PoeticNum { dest, rhs }
            }
            3 => Stmt::PoeticStr { dest: self.lhs(c), text: self.t.choose(POETIC_STRS).to_string() },
            4 => {
                let cond = self.expr(c);
                let then = self.block(depth - 1, false);
                let els = if self.t.chance(1, 2) { Some(self.block(depth - 1, false)) } else { None };
                Stmt::If { cond, then, els }
            }
            5 => Stmt::While { cond: self.expr(c), body: self.block(depth - 1, false) },
            6 => Stmt::Until { cond: self.expr(c), body: self.block(depth - 1, false) },
            7 => Stmt::Inc { dest: self.ident(), amount: self.amount() },
            8 => Stmt::Dec { dest: self.ident(), amount: self.amount() },
            9 => Stmt::Input { dest: if self.t.chance(3, 4) { Some(self.lhs(c)) } else { None } },
            10 => Stmt::Output { value: self.expr(c) },
            11 => {
                let op = *self.t.choose(&[MutOp::Cut, MutOp::Join, MutOp::Cast]);
                let has_dest = self.t.chance(1, 2);
                let operand = if has_dest { self.primary(c) } else { Primary::Ident(self.ident()) };
                let dest = if has_dest { Some(self.lhs(c)) } else { None };
                let param = if self.t.chance(1, 2) { Some(self.expr(c)) } else { None };
                Stmt::Mutation { op, operand, dest, param }
            }
            12 => Stmt::Rounding { dir: *self.t.choose(&[RoundDir::Up, RoundDir::Down, RoundDir::Nearest]), operand: self.expr(c) },
            13 => Stmt::Continue,
            14 => Stmt::Break,
            15 => {
                let array = self.primary(c);
                let value = match self.t.weighted(&[20, 60, if self.cfg.poetic { 20 } else { 0 }]) {
                    0 => None,
                    1 => Some(PushRhs::List(self.list(c, Self::expr_fn))),
                    _ => Some(PushRhs::Poetic(self.poetic())),
                };
                Stmt::Push { array, value }
            }
            16 => Stmt::Pop { array: self.primary(c), dest: if self.t.chance(1, 2) { Some(self.lhs(c)) } else { None } },
            17 => Stmt::Return { value: self.expr(c) },
            _ => {
                if depth > 0 && self.t.chance(1, 2) {
                    let name = self.fname();
                    let np = 1 + self.t.weighted(&[50, 30, 14, 5, 1]);
                    let np = if np == 5 { 8 + self.t.pick(5) } else { np };
                    let params = (0..np).map(|_| self.name()).collect();
                    let body = self.block(depth - 1, true);
                    Stmt::Function { name, params, body }
                } else {
                    Stmt::Call { name: self.fname(), args: self.args(c) }
                }
            }
        }
    }

    fn expr_fn(&mut self, c: Ctx) -> Expr {
        self.expr(c)
    }

    pub fn program(&mut self) -> Program {
        let nb = if self.cfg.multi_blocks { 1 + self.t.weighted(&[70, 20, 10]) } else { 1 };
        let mut blocks = Vec::new();
        for _ in 0..nb {
            let mut b = Vec::new();
            let n = 1 + self.t.pick(self.cfg.max_block_len);
            for _ in 0..n {
                b.push(self.stmt(self.cfg.max_block_depth));
            }
            blocks.push(b);
        }
        Program { blocks }
    }
}
