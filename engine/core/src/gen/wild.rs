//! C09 generator: "wild" programs — every statement applied to variables of every
//! kind, names shared between functions, variables and parameters, boundary numerics
//! in every numeric position, degenerate poetic literals, break/continue/return
//! anywhere.  Type-directed: the model is consulted after every statement so that
//! programs keep running (most statements succeed), wild ones are mixed in.

use super::syntax::{Ctx, SynCfg, SynGen};
use super::values::{gen_number_expr, gen_string};
use crate::ast::*;
use crate::model::{self, Limits, Scoping, Stop, V};
use crate::tape::Tape;

pub struct WildOut {
    pub prog: Program,
    pub stdin: Vec<u8>,
    pub ends_unspecified: bool,
}

fn pe(p: Primary) -> Expr {
    Expr::Primary(p)
}
fn sub(a: Primary, i: Primary) -> Primary {
    Primary::Subscript(Box::new(a), Box::new(i))
}

/// boundary numbers for indices, radices, code points, repeat counts
fn boundary(t: &mut Tape) -> Expr {
    match t.pick(14) {
        0 => num(1e30),
        1 => num(1e300),
        2 => num(f64::INFINITY),
        3 => bin(BinOp::Divide, num(0.0), num(0.0)),
        4 => un(UnOp::Minus, num(1.0)),
        5 => num(0.5),
        6 => num(4294967296.0),
        7 => num(18446744073709551616.0),
        8 => num(1114112.0),
        9 => num(55296.0),
        10 => num(37.0),
        11 => num(1.0),
        12 => num(0.0),
        _ => un(UnOp::Minus, num(1e30)),
    }
}

pub fn degenerate_poetic(t: &mut Tape) -> Vec<PoeticElem> {
    use PoeticElem::*;
    let w = |s: &str| Word(s.to_string());
    let sfx = |s: &str| Suffix(s.to_string());
    match t.pick(12) {
        0 => vec![sfx("'s"), w("cool")],
        1 => vec![w("a"), Dot, sfx("-b")],
        2 => vec![Dot],
        3 => vec![Dot, Dot, Dot],
        4 => vec![sfx("'s")],
        5 => vec![sfx("'re"), sfx("'s"), sfx("'s")],
        6 => vec![w("a"), Dot, sfx("'s"), Dot, sfx("'re")],
        7 => (0..60).map(|_| w("abcdefghij")).collect(),
        8 => (0..40).map(|i| if i == 3 { Dot } else { w("abc") }).collect(),
        9 => vec![Dot, sfx("-x"), sfx("-y")],
        10 => vec![w("x"), sfx("-y"), sfx("'s"), Dot, Dot, w("z")],
        _ => vec![w("abcdefghijklmnopqrstuvwxyzabcdefghijklmnopqrstuvwxyz"), sfx("'s"), sfx("-abcdefghij")],
    }
}

pub fn gen_wild(t: &mut Tape, orphan_suffix: bool) -> WildOut {
    let lim = Limits { max_steps: 400, ..Limits::default() };
    let mut sg = SynGen::new(t, SynCfg { name_pool: 6, max_expr_depth: 3, max_block_depth: 2, max_block_len: 3, orphan_suffix, ..SynCfg::default() });
    // functions, variables and parameters share one small pool of names
    sg.funcs = sg.names.clone();
    let names = sg.names.clone();
    let mut stdin: Vec<u8> = vec![];
    for _ in 0..sg.t.pick(4) {
        stdin.extend(gen_string(sg.t).replace('\n', " ").into_bytes());
        if sg.t.chance(1, 12) {
            stdin.extend([0xff, 0xfe, 0x80]); // invalid UTF-8
        }
        stdin.push(b'\n');
    }
    let stdin_str = String::from_utf8_lossy(&stdin).into_owned();
    let mut blocks: Vec<Vec<Stmt>> = vec![vec![]];
    let n = 2 + sg.t.pick(14);
    let mut ends_unspecified = false;
    for _ in 0..n {
        // what do the variables hold right now?
        let prog_so_far = Program { blocks: blocks.iter().filter(|b| !b.is_empty()).cloned().collect() };
        let mut m = model::Machine::new(&stdin_str, Scoping::Dynamic, lim);
        let mut alive = true;
        'run: for b in &prog_so_far.blocks {
            for st in b {
                match m.exec_top(st) {
                    Ok(true) => {}
                    _ => {
                        alive = false;
                        break 'run;
                    }
                }
            }
        }
        if !alive {
            // the program is over for the reference (error, or break/continue/return at top level):
            // whatever follows in further top-level blocks must still not crash anything
            for _ in 0..sg.t.pick(3) {
                let st = match sg.t.pick(5) {
                    0 => Stmt::Break,
                    1 => Stmt::Continue,
                    2 => Stmt::Return { value: num(2.0) },
                    _ => sg.stmt(1),
                };
                if Program::single(vec![st.clone()]).validate().is_ok() {
                    blocks.push(vec![st]);
                }
            }
            break;
        }
        let x = names[sg.t.pick(names.len())].clone();
        let y = names[sg.t.pick(names.len())].clone();
        let kx = m.peek(&x).cloned();
        let wild = sg.t.chance(1, 4);
        let cand: Stmt = if wild {
            sg.stmt(2)
        } else {
            match &kx {
                None => {
                    // unset: give it a value of some kind (or define it as a function)
                    match sg.t.weighted(&[30, 25, 20, 10, 15]) {
                        0 => put(gen_number_expr(sg.t).0, &x),
                        1 => {
                            let s = gen_string(sg.t);
                            put(strlit(&s), &x)
                        }
                        2 => {
                            let n = sg.t.pick(5);
                            if n == 0 {
                                Stmt::Push { array: pvar(&x), value: None }
                            } else {
                                Stmt::Push { array: pvar(&x), value: Some(PushRhs::List((0..n).map(|_| Expr::Primary(Primary::Lit(sg.lit()))).collect())) }
                            }
                        }
                        3 => put(Expr::Primary(Primary::Lit(sg.lit())), &x),
                        _ => {
                            let np = 1 + sg.t.pick(3);
                            // duplicate parameter names and parameters named like the function are allowed
                            // (also the same name in another letter case: still the same variable)
                            let params: Vec<Name> = (0..np)
                                .map(|_| {
                                    let n = names[sg.t.pick(names.len())].clone();
                                    if sg.t.chance(1, 2) {
                                        super::names::recase(&n, sg.t)
                                    } else {
                                        n
                                    }
                                })
                                .collect();
                            let body = sg.block(1, true);
                            Stmt::Function { name: x.clone(), params, body }
                        }
                    }
                }
                Some(V::Num(_)) => match sg.t.pick(9) {
                    0 => Stmt::Inc { dest: Ident::Name(x.clone()), amount: 1 + sg.t.pick(3) as u32 },
                    1 => Stmt::Rounding { dir: *sg.t.choose(&[RoundDir::Up, RoundDir::Down, RoundDir::Nearest]), operand: var(&x) },
                    2 => Stmt::Mutation { op: MutOp::Cast, operand: pvar(&x), dest: Some(Lhs::Ident(Ident::Name(y.clone()))), param: None },
                    3 => Stmt::Assign { dest: Lhs::Ident(Ident::Name(x.clone())), value: vec![boundary(sg.t)], op: Some(*sg.t.choose(&[BinOp::Plus, BinOp::Minus, BinOp::Multiply, BinOp::Divide])) },
                    4 => say(bin(*sg.t.choose(&[BinOp::Less, BinOp::Eq, BinOp::GreaterEq]), var(&x), var(&y))),
                    5 => put(boundary(sg.t), &x),
                    6 => say(pe(sub(pvar(&y), pvar(&x)))),
                    7 => Stmt::Assign { dest: Lhs::Subscript(Box::new(pvar(&y)), Box::new(pvar(&x))), value: vec![num(1.0)], op: None },
                    _ => say(bin(BinOp::Multiply, strlit("ab"), var(&x))),
                },
                Some(V::Str(_)) => match sg.t.pick(8) {
                    0 => Stmt::Mutation { op: MutOp::Cut, operand: pvar(&x), dest: Some(Lhs::Ident(Ident::Name(y.clone()))), param: if sg.t.chance(1, 2) { Some(strlit(",")) } else { None } },
                    1 => Stmt::Mutation { op: MutOp::Cast, operand: pvar(&x), dest: None, param: Some(boundary(sg.t)) },
                    2 => Stmt::Mutation { op: MutOp::Cast, operand: pvar(&x), dest: Some(Lhs::Ident(Ident::Name(y.clone()))), param: Some(num(*sg.t.choose(&[2.0, 10.0, 16.0, 36.0]))) },
                    3 => say(pe(sub(pvar(&x), Primary::Lit(Lit::Num(sg.t.pick(4) as f64))))),
                    4 => put(bin(BinOp::Plus, var(&x), var(&y)), &x),
                    5 => Stmt::Input { dest: Some(Lhs::Ident(Ident::Name(x.clone()))) },
                    6 => say(bin(BinOp::Multiply, var(&x), num(sg.t.pick(4) as f64))),
                    _ => Stmt::PoeticStr { dest: Lhs::Ident(Ident::Name(x.clone())), text: "plain text".into() },
                },
                Some(V::Arr(_)) => match sg.t.pick(10) {
                    0 => Stmt::Push { array: pvar(&x), value: Some(PushRhs::List(vec![var(&y)])) },
                    1 => Stmt::Pop { array: pvar(&x), dest: Some(Lhs::Ident(Ident::Name(y.clone()))) },
                    2 => Stmt::Assign { dest: Lhs::Subscript(Box::new(pvar(&x)), Box::new(Primary::Lit(Lit::Num(sg.t.pick(6) as f64)))), value: vec![var(&y)], op: None },
                    3 => Stmt::Mutation { op: MutOp::Join, operand: pvar(&x), dest: Some(Lhs::Ident(Ident::Name(y.clone()))), param: None },
                    4 => say(pe(Primary::Pop(Box::new(pvar(&x))))),
                    5 => Stmt::Push { array: pvar(&x), value: Some(PushRhs::Poetic(degenerate_poetic(sg.t))) },
                    6 => {
                        // boundary index through a scratch variable (subscripts cannot be compound)
                        let b = boundary(sg.t);
                        match b {
                            Expr::Primary(Primary::Lit(l)) => Stmt::Assign { dest: Lhs::Subscript(Box::new(pvar(&x)), Box::new(Primary::Lit(l))), value: vec![num(1.0)], op: None },
                            other => put(other, &y),
                        }
                    }
                    7 => say(pe(sub(pvar(&x), Primary::Lit(Lit::Str("k".into()))))),
                    8 => Stmt::Assign { dest: Lhs::Subscript(Box::new(pvar(&x)), Box::new(Primary::Lit(sg.lit()))), value: vec![var(&x)], op: None },
                    _ => say(bin(BinOp::Eq, var(&x), var(&y))),
                },
                Some(_) => match sg.t.pick(5) {
                    0 => Stmt::Inc { dest: Ident::Name(x.clone()), amount: 1 },
                    1 => Stmt::Push { array: pvar(&x), value: Some(PushRhs::List(vec![num(1.0)])) },
                    2 => say(bin(BinOp::Plus, var(&x), var(&y))),
                    3 => Stmt::If { cond: var(&x), then: vec![say(strlit("t"))], els: Some(vec![say(strlit("e"))]) },
                    _ => put(gen_number_expr(sg.t).0, &x),
                },
            }
        };
        // degenerate poetic literals, pronouns without referent, control flow at top level
        let cand = match sg.t.weighted(&[80, 6, 5, 3, 3, 3]) {
            0 => cand,
            1 => Stmt::PoeticNum { dest: Lhs::Ident(Ident::Name(x.clone())), rhs: PoeticRhs::Literal(degenerate_poetic(sg.t)) },
            2 => say(pe(Primary::Ident(Ident::Pronoun))),
            3 => Stmt::Break,
            4 => Stmt::Continue,
            _ => Stmt::Return { value: sg.expr(Ctx::new(2)) },
        };
        // a call of a known function with the right (or wrong) arity
        let cand = if sg.t.chance(1, 8) {
            let f = names[sg.t.pick(names.len())].clone();
            let args = sg.args(Ctx::new(2));
            say(pe(Primary::Call(f, args)))
        } else {
            cand
        };
        if Program::single(vec![cand.clone()]).validate().is_err() {
            continue;
        }
        // try it: keep what succeeds, keep a failing statement only now and then (it ends the program)
        let mut trial_blocks = blocks.clone();
        trial_blocks.last_mut().unwrap().push(cand.clone());
        let trial = Program { blocks: trial_blocks.iter().filter(|b| !b.is_empty()).cloned().collect() };
        let r = model::run(&trial, &stdin_str, Scoping::Dynamic, lim);
        match &r.result {
            Ok(()) => {
                blocks.last_mut().unwrap().push(cand);
                // now and then start a new top-level block
                if sg.t.chance(1, 8) {
                    blocks.push(vec![]);
                }
            }
            Err(Stop::Error(_)) => {
                if sg.t.chance(1, 3) {
                    blocks.last_mut().unwrap().push(cand);
                    // statements after the error never run, but the parser and linter see them
                    if sg.t.chance(1, 2) {
                        blocks.push(vec![sg.stmt(1)]);
                    }
                    break;
                }
            }
            Err(Stop::Unspecified(_)) => {
                if sg.t.chance(1, 2) {
                    blocks.last_mut().unwrap().push(cand);
                    ends_unspecified = true;
                    break;
                }
            }
            Err(Stop::Budget(_)) => {}
        }
    }
    let blocks: Vec<Vec<Stmt>> = blocks.into_iter().filter(|b| !b.is_empty()).collect();
    WildOut { prog: Program { blocks }, stdin, ends_unspecified }
}
