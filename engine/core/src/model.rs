//! Reference model: an independent interpreter over the mini-AST, written from
//! the language rules in DESIGN.md Appendix A.  Never calls rrss code.

use crate::ast::*;
use std::cmp::Ordering;
use std::collections::HashMap;
use std::rc::Rc;

// ------------------------------------------------------------------ values

#[derive(Clone, Debug)]
pub enum V {
    Myst,
    Null,
    Bool(bool),
    Num(f64),
    Str(String),
    Arr(Arr),
}

#[derive(Clone, Debug, PartialEq, Eq, Hash)]
pub enum Key {
    Myst,
    Null,
    Bool(bool),
    Str(String),
}

impl Key {
    /// the text rrss sorts dictionary entries by
    pub fn text(&self) -> String {
        match self {
            Key::Myst => "mysterious".into(),
            Key::Null => "null".into(),
            Key::Bool(b) => b.to_string(),
            Key::Str(s) => format!("\"{}\"", s),
        }
    }
}

#[derive(Clone, Debug, Default)]
pub struct Arr {
    pub seq: Vec<V>,
    /// insertion ordered
    pub dict: Vec<(Key, V)>,
}

impl Arr {
    pub fn get_key(&self, k: &Key) -> Option<&V> {
        self.dict.iter().find(|(kk, _)| kk == k).map(|(_, v)| v)
    }
    pub fn is_empty(&self) -> bool {
        self.seq.is_empty() && self.dict.is_empty()
    }
    /// sequence elements, then dictionary values in the order of their keys' text
    pub fn values_in_order(&self) -> Vec<&V> {
        let mut d: Vec<&(Key, V)> = self.dict.iter().collect();
        d.sort_by_key(|(k, _)| k.text());
        self.seq.iter().chain(d.into_iter().map(|(_, v)| v)).collect()
    }
}

#[derive(Copy, Clone, Debug, PartialEq, Eq, Hash, PartialOrd, Ord)]
pub enum Kind {
    Myst,
    Null,
    Bool,
    Num,
    Str,
    Arr,
}

impl V {
    pub fn kind(&self) -> Kind {
        match self {
            V::Myst => Kind::Myst,
            V::Null => Kind::Null,
            V::Bool(_) => Kind::Bool,
            V::Num(_) => Kind::Num,
            V::Str(_) => Kind::Str,
            V::Arr(_) => Kind::Arr,
        }
    }
    pub fn s(x: &str) -> V {
        V::Str(x.to_string())
    }
    pub fn arr(seq: Vec<V>) -> V {
        V::Arr(Arr { seq, dict: vec![] })
    }
}

/// does the value tree have at most `*left` nodes? (stops counting as soon as it has not)
pub fn within_nodes(v: &V, left: &mut usize) -> bool {
    if *left == 0 {
        return false;
    }
    *left -= 1;
    match v {
        V::Arr(a) => a.seq.iter().all(|x| within_nodes(x, left)) && a.dict.iter().all(|(_, x)| within_nodes(x, left)),
        _ => true,
    }
}

/// strict structural equality (what `==` on two values of the same kind means)
pub fn strict_eq(a: &V, b: &V) -> bool {
    match (a, b) {
        (V::Myst, V::Myst) | (V::Null, V::Null) => true,
        (V::Bool(x), V::Bool(y)) => x == y,
        (V::Num(x), V::Num(y)) => x == y,
        (V::Str(x), V::Str(y)) => x == y,
        (V::Arr(x), V::Arr(y)) => {
            x.seq.len() == y.seq.len()
                && x.seq.iter().zip(y.seq.iter()).all(|(p, q)| strict_eq(p, q))
                && x.dict.len() == y.dict.len()
                && x.dict.iter().all(|(k, v)| y.get_key(k).map_or(false, |w| strict_eq(v, w)))
        }
        _ => false,
    }
}

pub fn truthy(v: &V) -> bool {
    match v {
        V::Myst | V::Null => false,
        V::Bool(b) => *b,
        V::Num(n) => *n != 0.0,
        V::Str(_) | V::Arr(_) => true,
    }
}

pub fn decay(v: &V) -> V {
    match v {
        V::Arr(a) => V::Num(a.seq.len() as f64),
        o => o.clone(),
    }
}

pub fn num_text(n: f64) -> String {
    format!("{}", n)
}

/// canonical text of a value
pub fn text(v: &V) -> String {
    match decay(v) {
        V::Myst => "mysterious".into(),
        V::Null => "null".into(),
        V::Bool(b) => if b { "true" } else { "false" }.into(),
        V::Num(n) => num_text(n),
        V::Str(s) => s,
        V::Arr(_) => unreachable!(),
    }
}

#[derive(Clone, Debug, PartialEq)]
pub enum Stop {
    /// a runtime error, with an informational kind
    Error(String),
    /// outside the resource budget: the case is discarded, never judged
    Budget(&'static str),
    /// a construct whose meaning the properties do not fix: discarded
    Unspecified(&'static str),
}

fn err<T>(kind: &str) -> Result<T, Stop> {
    Err(Stop::Error(kind.to_string()))
}

#[derive(Clone, Copy, Debug)]
pub struct Limits {
    pub max_steps: u64,
    pub max_str: usize,
    pub max_arr: usize,
    pub max_depth: usize,
    pub max_out: usize,
}

impl Default for Limits {
    fn default() -> Self {
        Limits { max_steps: 2000, max_str: 10_000, max_arr: 64, max_depth: 30, max_out: 200_000 }
    }
}

pub fn plus(a: &V, b: &V, lim: &Limits) -> Result<V, Stop> {
    let cat = |x: String, y: String| -> Result<V, Stop> {
        if x.len() + y.len() > lim.max_str {
            return Err(Stop::Budget("string size"));
        }
        Ok(V::Str(x + &y))
    };
    Ok(match (a, b) {
        (V::Str(x), V::Str(y)) => cat(x.clone(), y.clone())?,
        (V::Str(x), V::Arr(_)) | (V::Arr(_), V::Str(x)) => {
            let _ = x;
            V::Myst
        }
        (V::Str(x), o) => cat(x.clone(), text(o))?,
        (o, V::Str(y)) => cat(text(o), y.clone())?,
        (V::Null, V::Num(y)) => V::Num(0.0 + y),
        (V::Num(x), V::Null) => V::Num(x + 0.0),
        (V::Arr(_), _) | (_, V::Arr(_)) => match (decay(a), decay(b)) {
            (V::Num(x), V::Num(y)) => V::Num(x + y),
            _ => V::Myst,
        },
        (V::Num(x), V::Num(y)) => V::Num(x + y),
        _ => V::Myst,
    })
}

fn arith_coerce(a: &V, b: &V) -> (V, V) {
    match (a, b) {
        (V::Null, V::Num(_)) => (V::Num(0.0), b.clone()),
        (V::Num(_), V::Null) => (a.clone(), V::Num(0.0)),
        (V::Arr(_), _) | (_, V::Arr(_)) => (decay(a), decay(b)),
        _ => (a.clone(), b.clone()),
    }
}

pub fn minus(a: &V, b: &V) -> V {
    match arith_coerce(a, b) {
        (V::Num(x), V::Num(y)) => V::Num(x - y),
        _ => V::Myst,
    }
}

pub fn over(a: &V, b: &V) -> V {
    match arith_coerce(a, b) {
        (V::Num(x), V::Num(y)) => V::Num(x / y),
        _ => V::Myst,
    }
}

pub fn times(a: &V, b: &V, lim: &Limits) -> Result<V, Stop> {
    Ok(match arith_coerce(a, b) {
        (V::Num(x), V::Num(y)) => V::Num(x * y),
        (V::Str(s), V::Num(n)) if n >= 0.0 => {
            let count = n as usize; // truncating, saturating
            // (an empty string repeated 1e18 times is still 1e18 loop iterations in rrss)
            if count.saturating_mul(s.len().max(1)) > lim.max_str {
                return Err(Stop::Budget("string size"));
            }
            V::Str(s.repeat(count))
        }
        _ => V::Myst,
    })
}

pub fn negate(a: &V) -> Result<V, Stop> {
    match a {
        V::Num(n) => Ok(V::Num(-n)),
        _ => err("negate"),
    }
}

/// comparison coercion; None = "no common ground" (a string that is not a number vs a number)
pub fn cmp_coerce(a: &V, b: &V) -> Option<(V, V)> {
    use V::*;
    if a.kind() == b.kind() {
        return Some((a.clone(), b.clone()));
    }
    let swap = |r: Option<(V, V)>| r.map(|(x, y)| (y, x));
    match (a, b) {
        (Myst, Null) => Some((Null, Null)),
        (Myst, _) => Some((a.clone(), b.clone())),
        (Arr(x), Null) => Some((Num(x.seq.len() as f64), Num(0.0))),
        (Arr(x), _) => Some((Num(x.seq.len() as f64), b.clone())),
        (Null, _) => swap(cmp_coerce(b, a)),
        (Bool(_), Null) => Some((a.clone(), Bool(false))),
        (Bool(_), _) => swap(cmp_coerce(b, a)),
        (Num(n), Bool(_)) => Some((Bool(*n != 0.0), b.clone())),
        (Num(_), Null) => Some((a.clone(), Num(0.0))),
        (Num(_), _) => swap(cmp_coerce(b, a)),
        (Str(s), Num(_)) => s.parse::<f64>().ok().map(|n| (Num(n), b.clone())),
        (Str(s), Bool(_)) => Some((Bool(!s.is_empty()), b.clone())),
        (Str(_), Null) => Some((a.clone(), Str(String::new()))),
        (Str(_), _) => Some((a.clone(), b.clone())),
    }
}

pub fn equals(a: &V, b: &V) -> bool {
    cmp_coerce(a, b).map_or(false, |(x, y)| strict_eq(&x, &y))
}

pub fn compare(a: &V, b: &V) -> Result<Option<Ordering>, Stop> {
    match cmp_coerce(a, b) {
        None => Ok(None),
        Some((x, y)) => match (&x, &y) {
            (V::Myst, V::Myst) | (V::Null, V::Null) => Ok(Some(Ordering::Equal)),
            (V::Num(p), V::Num(q)) => Ok(p.partial_cmp(q)),
            (V::Str(p), V::Str(q)) => Ok(Some(p.as_bytes().cmp(q.as_bytes()))),
            _ => err("invalid comparison"),
        },
    }
}

pub fn inc(v: &mut V, by: i64) -> Result<(), Stop> {
    if let V::Null = v {
        *v = V::Num(0.0);
    }
    match v {
        V::Bool(b) => {
            if by % 2 != 0 {
                *b = !*b;
            }
            Ok(())
        }
        V::Num(n) => {
            *n += by as f64;
            Ok(())
        }
        _ => err("inc/dec"),
    }
}

fn key_of(v: &V) -> Result<Key, Stop> {
    match v {
        V::Myst => Ok(Key::Myst),
        V::Null => Ok(Key::Null),
        V::Bool(b) => Ok(Key::Bool(*b)),
        V::Str(s) => Ok(Key::Str(s.clone())),
        V::Arr(_) => err("array as key"),
        V::Num(_) => unreachable!(),
    }
}

pub fn index_read(a: &V, i: &V) -> Result<V, Stop> {
    match a {
        V::Str(s) => match i {
            V::Num(n) => Ok(s.chars().nth(*n as usize).map_or(V::Myst, |c| V::Str(c.to_string()))),
            _ => err("invalid string index"),
        },
        V::Arr(arr) => match i {
            V::Num(n) => Ok(arr.seq.get(*n as usize).cloned().unwrap_or(V::Myst)),
            other => Ok(arr.get_key(&key_of(other)?).cloned().unwrap_or(V::Myst)),
        },
        _ => err("not indexable"),
    }
}

pub fn index_or_insert<'v>(target: &'v mut V, i: &V, lim: &Limits) -> Result<&'v mut V, Stop> {
    if let V::Myst = target {
        *target = V::Arr(Arr::default());
    }
    match target {
        V::Arr(arr) => match i {
            V::Num(n) => {
                let idx = *n as usize;
                if idx == usize::MAX {
                    return err("index out of range");
                }
                if idx >= arr.seq.len() {
                    if idx >= lim.max_arr {
                        return Err(Stop::Budget("array size"));
                    }
                    arr.seq.resize(idx + 1, V::Myst);
                }
                Ok(&mut arr.seq[idx])
            }
            other => {
                let k = key_of(other)?;
                if let Some(p) = arr.dict.iter().position(|(kk, _)| *kk == k) {
                    Ok(&mut arr.dict[p].1)
                } else {
                    if arr.dict.len() >= lim.max_arr {
                        return Err(Stop::Budget("array size"));
                    }
                    arr.dict.push((k, V::Myst));
                    Ok(&mut arr.dict.last_mut().unwrap().1)
                }
            }
        },
        V::Str(_) => err("index not assignable"),
        _ => err("not indexable"),
    }
}

pub fn push(target: &mut V, vals: Vec<V>, lim: &Limits) -> Result<(), Stop> {
    if !matches!(target, V::Arr(_)) {
        let old = std::mem::replace(target, V::Arr(Arr::default()));
        if !matches!(old, V::Myst) {
            if let V::Arr(a) = target {
                a.seq.push(old);
            }
        }
    }
    if let V::Arr(a) = target {
        if a.seq.len() + vals.len() > lim.max_arr {
            return Err(Stop::Budget("array size"));
        }
        a.seq.extend(vals);
    }
    Ok(())
}

pub fn pop(target: &mut V) -> Result<V, Stop> {
    match target {
        V::Arr(a) => Ok(if a.seq.is_empty() { V::Myst } else { a.seq.remove(0) }),
        _ => err("pop of a non-array"),
    }
}

/// leftmost, non-overlapping occurrences of `delim`; empty pieces kept
pub fn split_pieces(s: &str, delim: &str) -> Vec<String> {
    if delim.is_empty() {
        return s.chars().map(|c| c.to_string()).collect();
    }
    let sb = s.as_bytes();
    let db = delim.as_bytes();
    let mut out = Vec::new();
    let mut start = 0usize;
    let mut i = 0usize;
    while i + db.len() <= sb.len() {
        if &sb[i..i + db.len()] == db && s.is_char_boundary(i) {
            out.push(s[start..i].to_string());
            i += db.len();
            start = i;
        } else {
            i += 1;
        }
    }
    out.push(s[start..].to_string());
    out
}

pub fn split(v: &mut V, delim: Option<V>, lim: &Limits) -> Result<(), Stop> {
    match v {
        V::Str(s) => {
            let d = match &delim {
                Some(V::Str(d)) => d.clone(),
                Some(_) => return err("invalid split delimiter"),
                None => String::new(),
            };
            if s.is_empty() {
                *v = V::Arr(Arr::default());
                return Ok(());
            }
            let pieces = split_pieces(s, &d);
            if pieces.len() > lim.max_arr.max(256) {
                return Err(Stop::Budget("array size"));
            }
            *v = V::arr(pieces.into_iter().map(V::Str).collect());
            Ok(())
        }
        _ => err("split of a non-string"),
    }
}

pub fn join(v: &mut V, delim: Option<V>, lim: &Limits) -> Result<(), Stop> {
    match v {
        V::Arr(a) => {
            let d = match &delim {
                Some(V::Str(d)) => d.clone(),
                Some(_) => return err("invalid join delimiter"),
                None => String::new(),
            };
            let mut parts: Vec<&str> = Vec::new();
            for x in a.values_in_order() {
                match x {
                    V::Str(s) => parts.push(s),
                    _ => return err("invalid array element for join"),
                }
            }
            let out = parts.join(&d);
            if out.len() > lim.max_str {
                return Err(Stop::Budget("string size"));
            }
            *v = V::Str(out);
            Ok(())
        }
        _ => err("join of a non-array"),
    }
}

fn to_integer(f: f64) -> Option<i64> {
    let i = f.trunc();
    if i == f {
        Some(i as i64)
    } else {
        None
    }
}

pub fn cast(v: &mut V, param: Option<V>) -> Result<(), Stop> {
    match v {
        V::Num(n) => {
            if param.is_some() {
                return err("unexpected parameter for number-to-character cast");
            }
            let c = to_integer(*n)
                .and_then(|i| u32::try_from(i).ok())
                .and_then(char::from_u32);
            match c {
                Some(c) => {
                    *v = V::Str(c.to_string());
                    Ok(())
                }
                None => err("number is not a code point"),
            }
        }
        V::Str(s) => match param {
            Some(V::Num(p)) => {
                let radix = to_integer(p).and_then(|i| u32::try_from(i).ok()).filter(|r| (2..=36).contains(r));
                match radix.and_then(|r| i64::from_str_radix(s, r).ok()) {
                    Some(n) => {
                        *v = V::Num(n as f64);
                        Ok(())
                    }
                    None => err("invalid radix or digits"),
                }
            }
            Some(_) => err("invalid radix"),
            None => match s.parse::<f64>() {
                Ok(n) => {
                    *v = V::Num(n);
                    Ok(())
                }
                Err(_) => err("string is not a number"),
            },
        },
        _ => err("cast of wrong kind"),
    }
}

pub fn round(v: &mut V, dir: RoundDir) -> Result<(), Stop> {
    match v {
        V::Num(n) => {
            *n = match dir {
                RoundDir::Up => n.ceil(),
                RoundDir::Down => n.floor(),
                RoundDir::Nearest => n.round(),
            };
            Ok(())
        }
        _ => err("rounding of a non-number"),
    }
}

// ------------------------------------------------------------------ poetic literals

/// letters of a poetic word: apostrophes do not count
pub fn poetic_len(w: &str) -> usize {
    w.chars().filter(|c| *c != '\'').count()
}

/// the decimal numeral spelled by a poetic literal (digit rule), e.g. "314.15"
pub fn poetic_numeral(elems: &[PoeticElem]) -> String {
    let mut digits: Vec<Option<usize>> = Vec::new(); // None = decimal point
    let mut seen_dot = false;
    let mut cur: Option<usize> = None; // length of the word being accumulated
    for e in elems {
        match e {
            PoeticElem::Word(w) => {
                if let Some(l) = cur.take() {
                    digits.push(Some(l % 10));
                }
                cur = Some(poetic_len(w));
            }
            PoeticElem::Suffix(s) => {
                // counted with its word; an orphan suffix is a word of its own
                cur = Some(cur.unwrap_or(0) + poetic_len(s));
            }
            PoeticElem::Dot => {
                if let Some(l) = cur.take() {
                    digits.push(Some(l % 10));
                }
                if !seen_dot {
                    seen_dot = true;
                    digits.push(None);
                }
            }
        }
    }
    if let Some(l) = cur.take() {
        digits.push(Some(l % 10));
    }
    let mut s = String::new();
    for d in &digits {
        match d {
            Some(d) => s.push(char::from(b'0' + *d as u8)),
            None => s.push('.'),
        }
    }
    if s.is_empty() || s.starts_with('.') {
        s.insert(0, '0');
    }
    if s.ends_with('.') {
        s.push('0');
    }
    s
}

pub fn poetic_value(elems: &[PoeticElem]) -> f64 {
    poetic_numeral(elems).parse::<f64>().unwrap_or(f64::NAN)
}

// ------------------------------------------------------------------ execution

#[derive(Copy, Clone, Debug, PartialEq, Eq)]
pub enum Scoping {
    /// rrss: lookups walk the whole stack of active scopes, callers included
    Dynamic,
    /// the other reading of "enclosing scope": own activation, then globals
    Lexical,
}

#[derive(Clone, Debug)]
pub struct FuncDef {
    pub params: Vec<Name>,
    pub body: Vec<Stmt>,
}

#[derive(Clone, Debug)]
enum Entry {
    Var(V),
    Func(Rc<FuncDef>),
}

type NameKey = (u8, Vec<String>);

#[derive(Default, Debug)]
struct Scope {
    map: HashMap<NameKey, Entry>,
}

#[derive(Clone, Debug, PartialEq)]
pub enum Io {
    Say(String),
    /// the line that was consumed (without terminator); None at end of input
    Listen(Option<String>),
}

#[derive(Clone, Debug, Default)]
pub struct Trace {
    pub stmts: u64,
    pub loop_iters: u64,
    pub loops_zero_iter: u64,
    pub breaks: u64,
    pub continues: u64,
    pub break_in_nested_if: u64,
    pub calls: u64,
    pub max_call_depth: usize,
    pub returns: u64,
    pub returns_nested: u64,
    pub shadows: u64,
    pub pronoun_reads: u64,
    pub pronoun_writes: u64,
    pub says: u64,
    pub listens: u64,
    pub max_block_depth: usize,
    pub var_reads: u64,
    pub var_writes: u64,
    pub array_writes: u64,
    pub empty_branches: u64,
    pub else_taken: u64,
    pub until_loops: u64,
    pub mixed_kind_ops: u64,
    pub error_stmt_index: Option<u64>,
}

#[derive(Debug)]
enum Flow {
    Normal,
    Break,
    Continue,
    Return(V),
}

pub struct Machine<'i> {
    scopes: Vec<Scope>,
    /// index of the first scope of each active function activation
    bases: Vec<usize>,
    last: Option<Name>,
    pub scoping: Scoping,
    pub lim: Limits,
    pub steps: u64,
    pub out: String,
    pub io: Vec<Io>,
    input: std::str::SplitInclusive<'i, char>,
    pub trace: Trace,
    call_depth: usize,
    block_depth: usize,
    loop_depth_in_fn: Vec<usize>,
    if_depth_in_loop: Vec<usize>,
}

#[derive(Clone, Debug)]
pub struct Run {
    pub out: String,
    pub result: Result<(), Stop>,
    pub steps: u64,
    pub io: Vec<Io>,
    pub trace: Trace,
}

impl Run {
    pub fn ok(&self) -> bool {
        self.result.is_ok()
    }
    pub fn judged(&self) -> bool {
        !matches!(self.result, Err(Stop::Budget(_)) | Err(Stop::Unspecified(_)))
    }
}

pub fn run(p: &Program, input: &str, scoping: Scoping, lim: Limits) -> Run {
    let mut m = Machine::new(input, scoping, lim);
    let mut result = Ok(());
    'outer: for b in &p.blocks {
        match m.block(b) {
            Ok(Flow::Normal) => {}
            // a break / continue / return outside of any loop or function ends the program
            Ok(_) => break 'outer,
            Err(s) => {
                result = Err(s);
                break 'outer;
            }
        }
    }
    if result.is_err() {
        m.trace.error_stmt_index = Some(m.trace.stmts);
    }
    Run { out: m.out, result, steps: m.steps, io: m.io, trace: m.trace }
}

impl<'i> Machine<'i> {
    pub fn new(input: &'i str, scoping: Scoping, lim: Limits) -> Self {
        Machine {
            scopes: vec![Scope::default()],
            bases: vec![0],
            last: None,
            scoping,
            lim,
            steps: 0,
            out: String::new(),
            io: vec![],
            input: input.split_inclusive('\n'),
            trace: Trace::default(),
            call_depth: 0,
            block_depth: 0,
            loop_depth_in_fn: vec![0],
            if_depth_in_loop: vec![0],
        }
    }

    /// execute one top-level statement (used by generators that interpret while they generate);
    /// Ok(true) = carry on, Ok(false) = the program ended (top-level break/continue/return)
    pub fn exec_top(&mut self, s: &Stmt) -> Result<bool, Stop> {
        match self.stmt(s)? {
            Flow::Normal => Ok(true),
            _ => Ok(false),
        }
    }

    /// current value of a global variable
    pub fn peek(&self, n: &Name) -> Option<&V> {
        match self.scopes[0].map.get(&n.key()) {
            Some(Entry::Var(v)) => Some(v),
            _ => None,
        }
    }

    pub fn pronoun_referent(&self) -> Option<&Name> {
        self.last.as_ref()
    }
}

impl<'i> Machine<'i> {
    fn step(&mut self) -> Result<(), Stop> {
        self.steps += 1;
        if self.steps > self.lim.max_steps {
            Err(Stop::Budget("steps"))
        } else {
            Ok(())
        }
    }

    // ---- scopes

    fn push_scope(&mut self) {
        self.scopes.push(Scope::default());
    }
    fn pop_scope(&mut self) {
        self.scopes.pop();
        self.last = None;
    }

    /// indices of the scopes a lookup may see, innermost first
    fn visible(&self) -> Vec<usize> {
        match self.scoping {
            Scoping::Dynamic => (0..self.scopes.len()).rev().collect(),
            Scoping::Lexical => {
                let base = *self.bases.last().unwrap();
                let mut v: Vec<usize> = (base..self.scopes.len()).rev().collect();
                if base > 0 {
                    v.push(0);
                }
                v
            }
        }
    }

    fn find(&self, k: &NameKey) -> Option<usize> {
        self.visible().into_iter().find(|i| self.scopes[*i].map.contains_key(k))
    }

    fn lookup_var(&self, n: &Name) -> Result<&V, Stop> {
        let k = n.key();
        match self.find(&k) {
            Some(i) => match &self.scopes[i].map[&k] {
                Entry::Var(v) => Ok(v),
                Entry::Func(_) => err("expected variable, found function"),
            },
            None => err("name not found"),
        }
    }

    fn lookup_var_mut(&mut self, n: &Name) -> Result<&mut V, Stop> {
        let k = n.key();
        match self.find(&k) {
            Some(i) => match self.scopes[i].map.get_mut(&k).unwrap() {
                Entry::Var(v) => Ok(v),
                Entry::Func(_) => err("expected variable, found function"),
            },
            None => err("name not found"),
        }
    }

    fn lookup_func(&self, n: &Name) -> Result<Rc<FuncDef>, Stop> {
        let k = n.key();
        match self.find(&k) {
            Some(i) => match &self.scopes[i].map[&k] {
                Entry::Func(f) => Ok(f.clone()),
                Entry::Var(_) => err("expected function, found variable"),
            },
            None => err("name not found"),
        }
    }

    /// the variable an assignment writes: the visible one, else a new one in the innermost scope
    fn lookup_or_create(&mut self, n: &Name) -> Result<&mut V, Stop> {
        self.last = Some(n.clone());
        self.trace.var_writes += 1;
        let k = n.key();
        let visible_var = match self.find(&k) {
            Some(i) => matches!(self.scopes[i].map[&k], Entry::Var(_)).then_some(i),
            None => None,
        };
        match visible_var {
            Some(i) => match self.scopes[i].map.get_mut(&k).unwrap() {
                Entry::Var(v) => Ok(v),
                _ => unreachable!(),
            },
            None => {
                let top = self.scopes.len() - 1;
                if self.scopes[top].map.contains_key(&k) {
                    return err("duplicate symbol");
                }
                if self.scopes[..top].iter().any(|s| s.map.contains_key(&k)) {
                    self.trace.shadows += 1;
                }
                self.scopes[top].map.insert(k.clone(), Entry::Var(V::Myst));
                match self.scopes[top].map.get_mut(&k).unwrap() {
                    Entry::Var(v) => Ok(v),
                    _ => unreachable!(),
                }
            }
        }
    }

    fn pronoun_read(&mut self) -> Result<V, Stop> {
        self.trace.pronoun_reads += 1;
        match self.last.clone() {
            None => err("pronoun without referent"),
            Some(n) => self.lookup_var(&n).map(|v| v.clone()),
        }
    }

    fn pronoun_mut(&mut self) -> Result<&mut V, Stop> {
        self.trace.pronoun_writes += 1;
        match self.last.clone() {
            None => err("pronoun without referent"),
            Some(n) => self.lookup_var_mut(&n),
        }
    }

    // ---- expressions

    fn check_size(&self, v: &V) -> Result<(), Stop> {
        match v {
            V::Str(s) if s.len() > self.lim.max_str => Err(Stop::Budget("string size")),
            V::Arr(a) if a.seq.len() > self.lim.max_arr.max(256) => Err(Stop::Budget("array size")),
            // arrays nested into themselves (`rock x with x, x`) double with every step: bound the whole tree
            V::Arr(_) => {
                let mut left = 20_000usize;
                if within_nodes(v, &mut left) {
                    Ok(())
                } else {
                    Err(Stop::Budget("nested array size"))
                }
            }
            _ => Ok(()),
        }
    }

    pub fn eval(&mut self, e: &Expr) -> Result<V, Stop> {
        match e {
            Expr::Primary(p) => self.eval_primary(p),
            Expr::Unary { op, operand } => {
                let v = self.eval(operand)?;
                match op {
                    UnOp::Minus => negate(&v),
                    UnOp::Not => Ok(V::Bool(!truthy(&v))),
                }
            }
            Expr::Binary { op, lhs, rhs } => {
                let mut acc = self.eval(lhs)?;
                for r in rhs {
                    acc = self.apply(*op, acc, r)?;
                }
                Ok(acc)
            }
        }
    }

    fn apply(&mut self, op: BinOp, a: V, rhs: &Expr) -> Result<V, Stop> {
        // logical operators evaluate their right operand only when needed
        match op {
            BinOp::And => {
                return Ok(V::Bool(if truthy(&a) { truthy(&self.eval(rhs)?) } else { false }));
            }
            BinOp::Or => {
                return Ok(V::Bool(if truthy(&a) { true } else { truthy(&self.eval(rhs)?) }));
            }
            BinOp::Nor => {
                return Ok(V::Bool(if truthy(&a) { false } else { !truthy(&self.eval(rhs)?) }));
            }
            _ => {}
        }
        let b = self.eval(rhs)?;
        if a.kind() != b.kind() {
            self.trace.mixed_kind_ops += 1;
        }
        self.binary(op, &a, &b)
    }

    pub fn binary(&self, op: BinOp, a: &V, b: &V) -> Result<V, Stop> {
        let ord = |want: fn(Ordering) -> bool| -> Result<V, Stop> { Ok(V::Bool(compare(a, b)?.map_or(false, want))) };
        match op {
            BinOp::Plus => plus(a, b, &self.lim),
            BinOp::Minus => Ok(minus(a, b)),
            BinOp::Multiply => times(a, b, &self.lim),
            BinOp::Divide => Ok(over(a, b)),
            BinOp::Eq => Ok(V::Bool(equals(a, b))),
            BinOp::NotEq => Ok(V::Bool(!equals(a, b))),
            BinOp::Greater => ord(|o| o == Ordering::Greater),
            BinOp::GreaterEq => ord(|o| o != Ordering::Less),
            BinOp::Less => ord(|o| o == Ordering::Less),
            BinOp::LessEq => ord(|o| o != Ordering::Greater),
            BinOp::And => Ok(V::Bool(truthy(a) && truthy(b))),
            BinOp::Or => Ok(V::Bool(truthy(a) || truthy(b))),
            BinOp::Nor => Ok(V::Bool(!truthy(a) && !truthy(b))),
        }
    }

    fn eval_primary(&mut self, p: &Primary) -> Result<V, Stop> {
        match p {
            Primary::Lit(l) => Ok(match l {
                Lit::Mysterious => V::Myst,
                Lit::Null => V::Null,
                Lit::Bool(b) => V::Bool(*b),
                Lit::Num(n) => V::Num(*n),
                Lit::Str(s) => V::Str(s.clone()),
            }),
            Primary::Ident(Ident::Name(n)) => {
                self.last = Some(n.clone());
                self.trace.var_reads += 1;
                self.lookup_var(n).map(|v| v.clone())
            }
            Primary::Ident(Ident::Pronoun) => self.pronoun_read(),
            Primary::Subscript(a, i) => {
                let av = self.eval_primary(a)?;
                let iv = self.eval_primary(i)?;
                index_read(&av, &iv)
            }
            Primary::Call(name, args) => self.call(name, args),
            Primary::Pop(target) => self.pop_from(target),
        }
    }

    fn call(&mut self, name: &Name, args: &[Expr]) -> Result<V, Stop> {
        self.step()?;
        let f = self.lookup_func(name)?;
        if f.params.len() != args.len() {
            return err("wrong number of arguments");
        }
        let mut vals = Vec::new();
        for a in args {
            vals.push(self.eval(a)?);
        }
        // fresh parameters; duplicate parameter names are an error at call time
        let mut sc = Scope::default();
        for (p, v) in f.params.iter().zip(vals.into_iter()) {
            if sc.map.insert(p.key(), Entry::Var(v)).is_some() {
                return err("duplicate parameter name");
            }
        }
        if self.call_depth + 1 > self.lim.max_depth {
            return Err(Stop::Budget("call depth"));
        }
        for p in &f.params {
            let k = p.key();
            if self.scopes.iter().any(|s| s.map.contains_key(&k)) {
                self.trace.shadows += 1;
            }
        }
        self.trace.calls += 1;
        self.call_depth += 1;
        self.trace.max_call_depth = self.trace.max_call_depth.max(self.call_depth);
        self.bases.push(self.scopes.len());
        self.scopes.push(sc);
        let saved_block_depth = std::mem::replace(&mut self.block_depth, 0);
        self.loop_depth_in_fn.push(0);
        self.if_depth_in_loop.push(0);
        let flow = self.block(&f.body)?;
        self.loop_depth_in_fn.pop();
        self.if_depth_in_loop.pop();
        self.block_depth = saved_block_depth;
        self.pop_scope();
        self.bases.pop();
        self.call_depth -= 1;
        Ok(match flow {
            Flow::Return(v) => v,
            _ => V::Myst,
        })
    }

    // ---- writing

    /// locate the storage a writable primary denotes and apply `f` to it
    fn write_primary<T>(
        &mut self,
        p: &Primary,
        f: &mut dyn FnMut(&mut V, &Limits) -> Result<T, Stop>,
    ) -> Result<T, Stop> {
        match p {
            Primary::Ident(Ident::Name(n)) => {
                let lim = self.lim;
                let v = self.lookup_or_create(n)?;
                f(v, &lim)
            }
            Primary::Ident(Ident::Pronoun) => {
                let lim = self.lim;
                let v = self.pronoun_mut()?;
                f(v, &lim)
            }
            Primary::Subscript(..) => {
                // subscripts are evaluated outermost first, then the variable is named
                let mut subs: Vec<V> = Vec::new();
                let mut cur = p;
                let base = loop {
                    match cur {
                        Primary::Subscript(a, i) => {
                            subs.push(self.eval_primary(i)?);
                            cur = a;
                        }
                        Primary::Ident(id) => break id.clone(),
                        _ => return err("value not writable"),
                    }
                };
                self.trace.array_writes += 1;
                let lim = self.lim;
                let mut slot: &mut V = match &base {
                    Ident::Name(n) => self.lookup_or_create(n)?,
                    Ident::Pronoun => self.pronoun_mut()?,
                };
                while let Some(s) = subs.pop() {
                    slot = index_or_insert(slot, &s, &lim)?;
                }
                f(slot, &lim)
            }
            // `rock roll x …` / `roll roll x`: rrss writes through to x; the properties do not say
            Primary::Pop(_) => Err(Stop::Unspecified("write through a roll expression")),
            // The result of a call is not a place: a runtime error. (rrss applies the write to the callee's name and to
            // the arguments before it fails; the program stops there, so nothing can observe that.)
            Primary::Call(..) => err("value not writable"),
            Primary::Lit(_) => err("value not writable"),
        }
    }

    fn write_lhs(&mut self, l: &Lhs, val: V) -> Result<(), Stop> {
        self.check_size(&val)?;
        let p = l.as_primary();
        let mut val = Some(val);
        self.write_primary(&p, &mut |slot, _| {
            *slot = val.take().unwrap();
            Ok(())
        })
    }

    fn pop_from(&mut self, target: &Primary) -> Result<V, Stop> {
        self.write_primary(target, &mut |slot, _| pop(slot))
    }

    // ---- statements

    fn block(&mut self, b: &[Stmt]) -> Result<Flow, Stop> {
        for s in b {
            match self.stmt(s)? {
                Flow::Normal => {}
                other => return Ok(other),
            }
        }
        Ok(Flow::Normal)
    }

    fn say(&mut self, v: &V) -> Result<(), Stop> {
        let t = text(v);
        self.out.push_str(&t);
        self.out.push('\n');
        self.io.push(Io::Say(t));
        self.trace.says += 1;
        if self.out.len() > self.lim.max_out {
            return Err(Stop::Budget("output size"));
        }
        Ok(())
    }

    fn listen(&mut self) -> String {
        self.trace.listens += 1;
        match self.input.next() {
            Some(line) => {
                let l = line.strip_suffix('\n').unwrap_or(line).to_string();
                self.io.push(Io::Listen(Some(l.clone())));
                l
            }
            None => {
                self.io.push(Io::Listen(None));
                String::new()
            }
        }
    }

    fn loop_stmt(&mut self, cond: &Expr, body: &[Stmt], invert: bool) -> Result<Flow, Stop> {
        let mut iters = 0u64;
        if invert {
            self.trace.until_loops += 1;
        }
        loop {
            let c = truthy(&self.eval(cond)?);
            if c == invert {
                break;
            }
            self.step()?;
            iters += 1;
            self.trace.loop_iters += 1;
            self.push_scope();
            self.block_depth += 1;
            self.trace.max_block_depth = self.trace.max_block_depth.max(self.block_depth);
            *self.loop_depth_in_fn.last_mut().unwrap() += 1;
            self.if_depth_in_loop.push(0);
            let flow = self.block(body)?;
            self.if_depth_in_loop.pop();
            *self.loop_depth_in_fn.last_mut().unwrap() -= 1;
            self.block_depth -= 1;
            self.pop_scope();
            match flow {
                Flow::Normal | Flow::Continue => {}
                Flow::Break => break,
                Flow::Return(v) => return Ok(Flow::Return(v)),
            }
        }
        if iters == 0 {
            self.trace.loops_zero_iter += 1;
        }
        Ok(Flow::Normal)
    }

    fn stmt(&mut self, s: &Stmt) -> Result<Flow, Stop> {
        self.trace.stmts += 1;
        match s {
            Stmt::Assign { dest, value, op } => {
                let new = match op {
                    Some(op) => {
                        let mut acc = self.eval_primary(&dest.as_primary())?;
                        for r in value {
                            acc = self.apply(*op, acc, r)?;
                        }
                        acc
                    }
                    None => {
                        if value.len() > 1 {
                            return err("expression list in a plain assignment");
                        }
                        self.eval(&value[0])?
                    }
                };
                self.write_lhs(dest, new)?;
            }
            Stmt::PoeticNum { dest, rhs } => {
                let v = match rhs {
                    PoeticRhs::Expr(e) => self.eval(e)?,
                    PoeticRhs::Literal(elems) => V::Num(poetic_value(elems)),
                };
                self.write_lhs(dest, v)?;
            }
            Stmt::PoeticStr { dest, text } => self.write_lhs(dest, V::Str(text.clone()))?,
            Stmt::If { cond, then, els } => {
                let c = truthy(&self.eval(cond)?);
                self.push_scope();
                self.block_depth += 1;
                self.trace.max_block_depth = self.trace.max_block_depth.max(self.block_depth);
                *self.if_depth_in_loop.last_mut().unwrap() += 1;
                let flow = if c {
                    if then.is_empty() {
                        self.trace.empty_branches += 1;
                    }
                    self.block(then)?
                } else if let Some(e) = els {
                    self.trace.else_taken += 1;
                    if e.is_empty() {
                        self.trace.empty_branches += 1;
                    }
                    self.block(e)?
                } else {
                    Flow::Normal
                };
                *self.if_depth_in_loop.last_mut().unwrap() -= 1;
                self.block_depth -= 1;
                self.pop_scope();
                return Ok(flow);
            }
            Stmt::While { cond, body } => return self.loop_stmt(cond, body, false),
            Stmt::Until { cond, body } => return self.loop_stmt(cond, body, true),
            Stmt::Inc { dest, amount } | Stmt::Dec { dest, amount } => {
                let by = if matches!(s, Stmt::Inc { .. }) { *amount as i64 } else { -(*amount as i64) };
                self.write_primary(&Primary::Ident(dest.clone()), &mut |slot, _| inc(slot, by))?;
            }
            Stmt::Input { dest } => {
                let line = self.listen();
                if let Some(d) = dest {
                    self.write_lhs(d, V::Str(line))?;
                }
            }
            Stmt::Output { value } => {
                let v = self.eval(value)?;
                self.say(&v)?;
            }
            Stmt::Mutation { op, operand, dest, param } => {
                let param = match param {
                    Some(e) => Some(self.eval(e)?),
                    None => None,
                };
                let apply = |v: &mut V, param: Option<V>, lim: &Limits| match op {
                    MutOp::Cut => split(v, param, lim),
                    MutOp::Join => join(v, param, lim),
                    MutOp::Cast => cast(v, param),
                };
                match dest {
                    Some(d) => {
                        let mut v = self.eval_primary(operand)?;
                        let lim = self.lim;
                        apply(&mut v, param, &lim)?;
                        self.write_lhs(d, v)?;
                    }
                    None => {
                        self.write_primary(operand, &mut |slot, lim| apply(slot, param.clone(), lim))?;
                    }
                }
            }
            Stmt::Rounding { dir, operand } => match operand {
                Expr::Primary(p) => {
                    self.write_primary(p, &mut |slot, _| round(slot, *dir))?;
                }
                // An operator expression is not something that can be rounded in place: a runtime error whatever its
                // operands are (rrss applies the rounding to every identifier inside before it fails, which nothing
                // can observe because the program stops there).
                _ => return err("value not writable"),
            },
            Stmt::Continue => {
                self.trace.continues += 1;
                return Ok(Flow::Continue);
            }
            Stmt::Break => {
                self.trace.breaks += 1;
                if *self.if_depth_in_loop.last().unwrap() >= 1 {
                    self.trace.break_in_nested_if += 1;
                }
                return Ok(Flow::Break);
            }
            Stmt::Push { array, value } => {
                let vals: Vec<V> = match value {
                    None => vec![],
                    Some(PushRhs::List(es)) => {
                        let mut v = Vec::new();
                        for e in es {
                            v.push(self.eval(e)?);
                        }
                        v
                    }
                    Some(PushRhs::Poetic(elems)) => vec![V::Num(poetic_value(elems))],
                };
                for v in &vals {
                    self.check_size(v)?;
                }
                self.write_primary(array, &mut |slot, lim| push(slot, vals.clone(), lim))?;
            }
            Stmt::Pop { array, dest } => {
                let v = self.pop_from(array)?;
                if let Some(d) = dest {
                    self.write_lhs(d, v)?;
                }
            }
            Stmt::Return { value } => {
                let v = self.eval(value)?;
                self.trace.returns += 1;
                if *self.loop_depth_in_fn.last().unwrap() > 0 || self.block_depth > 0 {
                    self.trace.returns_nested += 1;
                }
                return Ok(Flow::Return(v));
            }
            Stmt::Function { name, params, body } => {
                let k = name.key();
                let top = self.scopes.len() - 1;
                if self.scopes[top].map.contains_key(&k) {
                    return err("duplicate symbol");
                }
                self.scopes[top].map.insert(k, Entry::Func(Rc::new(FuncDef { params: params.clone(), body: body.clone() })));
            }
            Stmt::Call { name, args } => {
                self.call(name, args)?;
            }
        }
        Ok(Flow::Normal)
    }
}
