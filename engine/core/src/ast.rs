//! Mini-AST of Rockstar as rrss's grammar defines it.  Independent of
//! `rrss::frontend::ast`; no source positions.

use serde::{Deserialize, Serialize};

#[derive(Clone, Debug, PartialEq, Eq, Hash, Serialize, Deserialize, PartialOrd, Ord)]
pub enum Name {
    Simple(String),
    Common(String, String),
    Proper(Vec<String>),
}

impl Name {
    pub fn words(&self) -> Vec<&str> {
        match self {
            Name::Simple(s) => vec![s.as_str()],
            Name::Common(a, b) => vec![a.as_str(), b.as_str()],
            Name::Proper(ws) => ws.iter().map(|s| s.as_str()).collect(),
        }
    }
    pub fn text(&self) -> String {
        self.words().join(" ")
    }
    /// symbol-table key: kind tag + char-wise lower-cased words
    pub fn key(&self) -> (u8, Vec<String>) {
        let lc = |s: &str| s.chars().flat_map(|c| c.to_lowercase()).collect::<String>();
        match self {
            Name::Simple(s) => (0, vec![lc(s)]),
            Name::Common(a, b) => (1, vec![lc(a), lc(b)]),
            Name::Proper(ws) => (2, ws.iter().map(|s| lc(s)).collect()),
        }
    }
}

#[derive(Clone, Debug, PartialEq, Serialize, Deserialize)]
pub enum Ident {
    Name(Name),
    Pronoun,
}

#[derive(Clone, Debug, Serialize, Deserialize)]
pub enum Lit {
    Mysterious,
    Null,
    Bool(bool),
    Num(#[serde(with = "f64_json")] f64),
    Str(String),
}

/// JSON has no infinities / NaN: write them as strings
pub mod f64_json {
    use serde::{Deserialize, Deserializer, Serializer};
    pub fn serialize<S: Serializer>(v: &f64, s: S) -> Result<S::Ok, S::Error> {
        if v.is_finite() {
            s.serialize_f64(*v)
        } else {
            s.serialize_str(&format!("{}", v))
        }
    }
    pub fn deserialize<'de, D: Deserializer<'de>>(d: D) -> Result<f64, D::Error> {
        #[derive(Deserialize)]
        #[serde(untagged)]
        enum N {
            F(f64),
            S(String),
        }
        match N::deserialize(d)? {
            N::F(f) => Ok(f),
            N::S(s) => s.parse::<f64>().map_err(serde::de::Error::custom),
        }
    }
}

impl PartialEq for Lit {
    fn eq(&self, o: &Lit) -> bool {
        match (self, o) {
            (Lit::Mysterious, Lit::Mysterious) | (Lit::Null, Lit::Null) => true,
            (Lit::Bool(a), Lit::Bool(b)) => a == b,
            // bit-exact so that -0/NaN are compared as written
            (Lit::Num(a), Lit::Num(b)) => a.to_bits() == b.to_bits(),
            (Lit::Str(a), Lit::Str(b)) => a == b,
            _ => false,
        }
    }
}

#[derive(Clone, Debug, PartialEq, Serialize, Deserialize)]
pub enum Primary {
    Lit(Lit),
    Ident(Ident),
    Subscript(Box<Primary>, Box<Primary>),
    Call(Name, Vec<Expr>),
    Pop(Box<Primary>),
}

#[derive(Copy, Clone, Debug, PartialEq, Eq, Hash, Serialize, Deserialize, PartialOrd, Ord)]
pub enum UnOp {
    Minus,
    Not,
}

#[derive(Copy, Clone, Debug, PartialEq, Eq, Hash, Serialize, Deserialize, PartialOrd, Ord)]
pub enum BinOp {
    Plus,
    Minus,
    Multiply,
    Divide,
    And,
    Or,
    Nor,
    Eq,
    NotEq,
    Greater,
    GreaterEq,
    Less,
    LessEq,
}

impl BinOp {
    pub const ALL: [BinOp; 13] = [
        BinOp::Plus,
        BinOp::Minus,
        BinOp::Multiply,
        BinOp::Divide,
        BinOp::And,
        BinOp::Or,
        BinOp::Nor,
        BinOp::Eq,
        BinOp::NotEq,
        BinOp::Greater,
        BinOp::GreaterEq,
        BinOp::Less,
        BinOp::LessEq,
    ];
    /// 0 logical, 1 comparison, 2 term, 3 factor
    pub fn level(self) -> u8 {
        match self {
            BinOp::And | BinOp::Or | BinOp::Nor => 0,
            BinOp::Eq | BinOp::NotEq | BinOp::Greater | BinOp::GreaterEq | BinOp::Less | BinOp::LessEq => 1,
            BinOp::Plus | BinOp::Minus => 2,
            BinOp::Multiply | BinOp::Divide => 3,
        }
    }
    pub fn is_arith(self) -> bool {
        self.level() >= 2
    }
}

#[derive(Clone, Debug, PartialEq, Serialize, Deserialize)]
pub enum Expr {
    Primary(Primary),
    Binary { op: BinOp, lhs: Box<Expr>, rhs: Vec<Expr> },
    Unary { op: UnOp, operand: Box<Expr> },
}

#[derive(Clone, Debug, PartialEq, Serialize, Deserialize)]
pub enum Lhs {
    Ident(Ident),
    Subscript(Box<Primary>, Box<Primary>),
}

impl Lhs {
    pub fn as_primary(&self) -> Primary {
        match self {
            Lhs::Ident(i) => Primary::Ident(i.clone()),
            Lhs::Subscript(a, b) => Primary::Subscript(a.clone(), b.clone()),
        }
    }
}

#[derive(Clone, Debug, PartialEq, Serialize, Deserialize)]
pub enum PoeticElem {
    Word(String),
    Suffix(String),
    Dot,
}

#[derive(Clone, Debug, PartialEq, Serialize, Deserialize)]
pub enum PoeticRhs {
    Expr(Expr),
    /// elements as stored in rrss's tree (commas are dropped by the parser)
    Literal(Vec<PoeticElem>),
}

#[derive(Copy, Clone, Debug, PartialEq, Eq, Hash, Serialize, Deserialize, PartialOrd, Ord)]
pub enum MutOp {
    Cut,
    Join,
    Cast,
}

#[derive(Copy, Clone, Debug, PartialEq, Eq, Hash, Serialize, Deserialize, PartialOrd, Ord)]
pub enum RoundDir {
    Up,
    Down,
    Nearest,
}

#[derive(Clone, Debug, PartialEq, Serialize, Deserialize)]
pub enum PushRhs {
    List(Vec<Expr>),
    Poetic(Vec<PoeticElem>),
}

#[derive(Clone, Debug, PartialEq, Serialize, Deserialize)]
pub enum Stmt {
    Assign { dest: Lhs, value: Vec<Expr>, op: Option<BinOp> },
    PoeticNum { dest: Lhs, rhs: PoeticRhs },
    PoeticStr { dest: Lhs, text: String },
    If { cond: Expr, then: Vec<Stmt>, els: Option<Vec<Stmt>> },
    While { cond: Expr, body: Vec<Stmt> },
    Until { cond: Expr, body: Vec<Stmt> },
    Inc { dest: Ident, amount: u32 },
    Dec { dest: Ident, amount: u32 },
    Input { dest: Option<Lhs> },
    Output { value: Expr },
    Mutation { op: MutOp, operand: Primary, dest: Option<Lhs>, param: Option<Expr> },
    Rounding { dir: RoundDir, operand: Expr },
    Continue,
    Break,
    Push { array: Primary, value: Option<PushRhs> },
    Pop { array: Primary, dest: Option<Lhs> },
    Return { value: Expr },
    Function { name: Name, params: Vec<Name>, body: Vec<Stmt> },
    Call { name: Name, args: Vec<Expr> },
}

impl Stmt {
    pub fn kind(&self) -> &'static str {
        match self {
            Stmt::Assign { op: None, .. } => "assign",
            Stmt::Assign { op: Some(_), .. } => "compound_assign",
            Stmt::PoeticNum { .. } => "poetic_num",
            Stmt::PoeticStr { .. } => "poetic_str",
            Stmt::If { .. } => "if",
            Stmt::While { .. } => "while",
            Stmt::Until { .. } => "until",
            Stmt::Inc { .. } => "inc",
            Stmt::Dec { .. } => "dec",
            Stmt::Input { .. } => "input",
            Stmt::Output { .. } => "output",
            Stmt::Mutation { .. } => "mutation",
            Stmt::Rounding { .. } => "rounding",
            Stmt::Continue => "continue",
            Stmt::Break => "break",
            Stmt::Push { .. } => "push",
            Stmt::Pop { .. } => "pop",
            Stmt::Return { .. } => "return",
            Stmt::Function { .. } => "function",
            Stmt::Call { .. } => "call",
        }
    }
    pub const KINDS: [&'static str; 20] = [
        "assign", "compound_assign", "poetic_num", "poetic_str", "if", "while", "until", "inc", "dec", "input",
        "output", "mutation", "rounding", "continue", "break", "push", "pop", "return", "function", "call",
    ];
}

#[derive(Clone, Debug, PartialEq, Serialize, Deserialize, Default)]
pub struct Program {
    pub blocks: Vec<Vec<Stmt>>,
}

impl Program {
    pub fn single(stmts: Vec<Stmt>) -> Self {
        Program { blocks: if stmts.is_empty() { vec![] } else { vec![stmts] } }
    }
    pub fn stmt_count(&self) -> usize {
        fn cnt(b: &[Stmt]) -> usize {
            b.iter()
                .map(|s| {
                    1 + match s {
                        Stmt::If { then, els, .. } => cnt(then) + els.as_ref().map_or(0, |e| cnt(e)),
                        Stmt::While { body, .. } | Stmt::Until { body, .. } | Stmt::Function { body, .. } => cnt(body),
                        _ => 0,
                    }
                })
                .sum()
        }
        self.blocks.iter().map(|b| cnt(b)).sum()
    }
}

// ---------------------------------------------------------------- helpers

pub fn num(n: f64) -> Expr {
    Expr::Primary(Primary::Lit(Lit::Num(n)))
}
pub fn strlit(s: &str) -> Expr {
    Expr::Primary(Primary::Lit(Lit::Str(s.to_string())))
}
pub fn lit(l: Lit) -> Expr {
    Expr::Primary(Primary::Lit(l))
}
pub fn var(n: &Name) -> Expr {
    Expr::Primary(Primary::Ident(Ident::Name(n.clone())))
}
pub fn pvar(n: &Name) -> Primary {
    Primary::Ident(Ident::Name(n.clone()))
}
pub fn simple(s: &str) -> Name {
    Name::Simple(s.to_string())
}
pub fn bin(op: BinOp, lhs: Expr, rhs: Expr) -> Expr {
    Expr::Binary { op, lhs: Box::new(lhs), rhs: vec![rhs] }
}
pub fn un(op: UnOp, e: Expr) -> Expr {
    Expr::Unary { op, operand: Box::new(e) }
}
pub fn say(e: Expr) -> Stmt {
    Stmt::Output { value: e }
}
pub fn put(e: Expr, n: &Name) -> Stmt {
    Stmt::Assign { dest: Lhs::Ident(Ident::Name(n.clone())), value: vec![e], op: None }
}

impl Expr {
    /// a following `,` / `and` / `&` / `'n'` would be swallowed by a call's argument list
    pub fn ends_in_call(&self) -> bool {
        match self {
            Expr::Primary(p) => p.ends_in_call(),
            Expr::Binary { rhs, .. } => rhs.last().map_or(false, |e| e.ends_in_call()),
            Expr::Unary { operand, .. } => operand.ends_in_call(),
        }
    }
    /// a following comma would be absorbed (by a call or by an operator's list)
    pub fn absorbs_comma(&self) -> bool {
        match self {
            Expr::Primary(p) => p.ends_in_call(),
            Expr::Binary { .. } => true,
            Expr::Unary { operand, .. } => operand.absorbs_comma(),
        }
    }
    pub fn is_unary_level(&self) -> bool {
        match self {
            Expr::Primary(_) => true,
            Expr::Unary { operand, .. } => operand.is_unary_level(),
            Expr::Binary { .. } => false,
        }
    }
    /// the first token this expression renders to is a unary minus
    pub fn starts_with_minus(&self) -> bool {
        match self {
            Expr::Primary(_) => false,
            Expr::Binary { lhs, .. } => lhs.starts_with_minus(),
            Expr::Unary { op, .. } => *op == UnOp::Minus,
        }
    }
    pub fn starts_with_not(&self) -> bool {
        match self {
            Expr::Primary(_) => false,
            Expr::Binary { lhs, .. } => lhs.starts_with_not(),
            Expr::Unary { op, .. } => *op == UnOp::Not,
        }
    }
    /// leftmost leaf when no unary operator is crossed
    pub fn leftmost_primary(&self) -> Option<&Primary> {
        match self {
            Expr::Primary(p) => Some(p.leftmost()),
            Expr::Binary { lhs, .. } => lhs.leftmost_primary(),
            Expr::Unary { .. } => None,
        }
    }
    /// does the first token belong to a literal, or is it `-` directly followed by a number token?
    pub fn starts_like_poetic_expression(&self) -> bool {
        match self {
            Expr::Primary(p) => matches!(p.leftmost(), Primary::Lit(_)),
            Expr::Binary { lhs, .. } => lhs.starts_like_poetic_expression(),
            Expr::Unary { op: UnOp::Minus, operand } => match &**operand {
                // `- 5 ...`: operand's first token must be the number itself
                Expr::Primary(p) => matches!(p.leftmost(), Primary::Lit(Lit::Num(_))),
                _ => false,
            },
            Expr::Unary { .. } => false,
        }
    }
    pub fn op_count(&self) -> usize {
        match self {
            Expr::Primary(p) => p.op_count(),
            Expr::Binary { lhs, rhs, .. } => rhs.len() + lhs.op_count() + rhs.iter().map(|e| e.op_count()).sum::<usize>(),
            Expr::Unary { operand, .. } => 1 + operand.op_count(),
        }
    }
    pub fn depth(&self) -> usize {
        match self {
            Expr::Primary(p) => p.depth(),
            Expr::Binary { lhs, rhs, .. } => 1 + lhs.depth().max(rhs.iter().map(|e| e.depth()).max().unwrap_or(0)),
            Expr::Unary { operand, .. } => 1 + operand.depth(),
        }
    }
}

impl Primary {
    pub fn ends_in_call(&self) -> bool {
        match self {
            Primary::Call(..) => true,
            Primary::Subscript(_, idx) => idx.ends_in_call(),
            Primary::Pop(p) => p.ends_in_call(),
            _ => false,
        }
    }
    /// a following `at` would be swallowed (roll / call operands are greedy)
    pub fn swallows_at(&self) -> bool {
        match self {
            Primary::Call(..) | Primary::Pop(..) => true,
            Primary::Subscript(_, idx) => idx.swallows_at(),
            _ => false,
        }
    }
    pub fn leftmost(&self) -> &Primary {
        match self {
            Primary::Subscript(a, _) => a.leftmost(),
            p => p,
        }
    }
    pub fn op_count(&self) -> usize {
        match self {
            Primary::Subscript(a, b) => 1 + a.op_count() + b.op_count(),
            Primary::Call(_, args) => 1 + args.iter().map(|e| e.op_count()).sum::<usize>(),
            Primary::Pop(p) => 1 + p.op_count(),
            _ => 0,
        }
    }
    pub fn depth(&self) -> usize {
        match self {
            Primary::Subscript(a, b) => 1 + a.depth().max(b.depth()),
            Primary::Call(_, args) => 1 + args.iter().map(|e| e.depth()).max().unwrap_or(0),
            Primary::Pop(p) => 1 + p.depth(),
            _ => 0,
        }
    }
}

// ---------------------------------------------------------------- expressibility

/// Is this tree one that rrss's grammar can express (so that rendering it is meaningful)?
/// Used as a self-check of the generators.
pub fn validate_expr(e: &Expr, min_level: u8) -> Result<(), String> {
    match e {
        Expr::Primary(p) => validate_primary(p),
        Expr::Unary { operand, .. } => {
            if !operand.is_unary_level() {
                return Err("unary operator applied to a binary expression".into());
            }
            validate_expr(operand, 4)
        }
        Expr::Binary { op, lhs, rhs } => {
            let l = op.level();
            if l < min_level {
                return Err(format!("operator {:?} below the level its position allows", op));
            }
            if rhs.is_empty() {
                return Err("empty operand list".into());
            }
            // left operand: same level (left-assoc chain) or tighter
            validate_expr(lhs, l)?;
            if *op == BinOp::And && lhs.ends_in_call() {
                return Err("left operand of `and` ends in a call".into());
            }
            let n = rhs.len();
            for (i, r) in rhs.iter().enumerate() {
                if i + 1 < n {
                    if !r.is_unary_level() || r.ends_in_call() {
                        return Err("non-last list element must be unary-level and must not end in a call".into());
                    }
                }
                validate_expr(r, l + 1)?;
            }
            if let Expr::Unary { op: UnOp::Not, .. } = &rhs[0] {
                if *op == BinOp::Eq {
                    return Err("`is not x` spells NotEq".into());
                }
            }
            Ok(())
        }
    }
}

pub fn validate_primary(p: &Primary) -> Result<(), String> {
    match p {
        Primary::Lit(Lit::Num(n)) => {
            if *n < 0.0 || n.is_nan() || (*n == 0.0 && n.is_sign_negative()) {
                Err("number literal must be non-negative".into())
            } else {
                Ok(())
            }
        }
        Primary::Lit(Lit::Str(s)) => {
            if s.contains('"') {
                Err("string literal contains a quote".into())
            } else {
                Ok(())
            }
        }
        Primary::Lit(_) | Primary::Ident(_) => Ok(()),
        Primary::Subscript(a, i) => {
            if matches!(**a, Primary::Call(..) | Primary::Pop(..)) {
                return Err("subscript of a call / roll expression".into());
            }
            if let Primary::Subscript(_, inner) = &**a {
                if inner.swallows_at() {
                    return Err("inner subscript swallows the following `at`".into());
                }
            }
            if matches!(**i, Primary::Subscript(..)) {
                return Err("index must be a non-subscript primary".into());
            }
            validate_primary(a)?;
            validate_primary(i)
        }
        Primary::Call(_, args) => {
            if args.is_empty() {
                return Err("call without arguments".into());
            }
            let n = args.len();
            for (i, a) in args.iter().enumerate() {
                if !a.is_unary_level() {
                    return Err("call argument must be unary-level".into());
                }
                if i + 1 < n && a.ends_in_call() {
                    return Err("non-last argument ends in a call".into());
                }
                validate_expr(a, 4)?;
            }
            Ok(())
        }
        Primary::Pop(p) => validate_primary(p),
    }
}

pub fn validate_lhs(l: &Lhs) -> Result<(), String> {
    match l {
        Lhs::Ident(_) => Ok(()),
        Lhs::Subscript(a, _) => {
            if !matches!(a.leftmost(), Primary::Ident(_)) {
                return Err("assignment target must be rooted at an identifier".into());
            }
            validate_primary(&l.as_primary())
        }
    }
}

fn validate_list(es: &[Expr]) -> Result<(), String> {
    let n = es.len();
    if n == 0 {
        return Err("empty value list".into());
    }
    for (i, e) in es.iter().enumerate() {
        if i + 1 < n && (!e.is_unary_level() || e.ends_in_call()) {
            return Err("non-last value-list element must be unary-level and must not end in a call".into());
        }
        validate_expr(e, 0)?;
    }
    Ok(())
}

pub fn validate_block(b: &[Stmt], fn_body: bool) -> Result<(), String> {
    for (i, s) in b.iter().enumerate() {
        if fn_body && matches!(s, Stmt::If { els: Some(_), .. }) && i + 1 != b.len() {
            return Err("if/else must be the last statement of a function body".into());
        }
        match s {
            Stmt::Assign { dest, value, op } => {
                validate_lhs(dest)?;
                validate_list(value)?;
                if let Some(o) = op {
                    if !o.is_arith() {
                        return Err("compound operator must be arithmetic".into());
                    }
                } else if value.len() > 1 && value[0].starts_with_minus() {
                    return Err("`let x be -…` is a compound assignment".into());
                }
            }
            Stmt::PoeticNum { dest, rhs } => {
                validate_lhs(dest)?;
                match rhs {
                    PoeticRhs::Expr(e) => {
                        if !e.starts_like_poetic_expression() {
                            return Err("poetic expression must start with a literal or -number".into());
                        }
                        validate_expr(e, 0)?
                    }
                    PoeticRhs::Literal(el) => {
                        if el.is_empty() {
                            return Err("empty poetic literal".into());
                        }
                    }
                }
            }
            Stmt::PoeticStr { dest, text } => {
                validate_lhs(dest)?;
                if text.contains('\n') {
                    return Err("poetic string with a line break".into());
                }
            }
            Stmt::If { cond, then, els } => {
                validate_expr(cond, 0)?;
                validate_block(then, false)?;
                if let Some(e) = els {
                    validate_block(e, false)?
                }
            }
            Stmt::While { cond, body } | Stmt::Until { cond, body } => {
                validate_expr(cond, 0)?;
                validate_block(body, false)?
            }
            Stmt::Inc { amount, .. } | Stmt::Dec { amount, .. } => {
                if *amount == 0 {
                    return Err("build/knock by zero".into());
                }
            }
            Stmt::Input { dest } => {
                if let Some(d) = dest {
                    validate_lhs(d)?
                }
            }
            Stmt::Output { value } | Stmt::Return { value } | Stmt::Rounding { operand: value, .. } => validate_expr(value, 0)?,
            Stmt::Mutation { operand, dest, param, .. } => {
                validate_primary(operand)?;
                match dest {
                    Some(d) => validate_lhs(d)?,
                    None => {
                        if !matches!(operand, Primary::Ident(_)) {
                            return Err("mutation without destination needs an identifier operand".into());
                        }
                    }
                }
                if let Some(p) = param {
                    validate_expr(p, 0)?
                }
            }
            Stmt::Continue | Stmt::Break => {}
            Stmt::Push { array, value } => {
                validate_primary(array)?;
                if let Some(PushRhs::List(es)) = value {
                    validate_list(es)?
                }
            }
            Stmt::Pop { array, dest } => {
                validate_primary(array)?;
                if let Some(d) = dest {
                    validate_lhs(d)?
                }
            }
            Stmt::Function { params, body, .. } => {
                if params.is_empty() {
                    return Err("function without parameters".into());
                }
                validate_block(body, true)?
            }
            Stmt::Call { name, args } => validate_primary(&Primary::Call(name.clone(), args.clone()))?,
        }
    }
    Ok(())
}

impl Program {
    pub fn validate(&self) -> Result<(), String> {
        for b in &self.blocks {
            if b.is_empty() {
                return Err("empty top-level block".into());
            }
            validate_block(b, false)?;
        }
        Ok(())
    }
}

// ---------------------------------------------------------------- renaming

/// Rebuild a program with every name mention passed through `f` (mention by mention).
pub fn map_names(p: &Program, f: &mut dyn FnMut(&Name) -> Name) -> Program {
    Program { blocks: p.blocks.iter().map(|b| map_block(b, f)).collect() }
}

fn map_block(b: &[Stmt], f: &mut dyn FnMut(&Name) -> Name) -> Vec<Stmt> {
    b.iter().map(|s| map_stmt(s, f)).collect()
}

fn map_ident(i: &Ident, f: &mut dyn FnMut(&Name) -> Name) -> Ident {
    match i {
        Ident::Name(n) => Ident::Name(f(n)),
        Ident::Pronoun => Ident::Pronoun,
    }
}

fn map_primary(p: &Primary, f: &mut dyn FnMut(&Name) -> Name) -> Primary {
    match p {
        Primary::Lit(l) => Primary::Lit(l.clone()),
        Primary::Ident(i) => Primary::Ident(map_ident(i, f)),
        Primary::Subscript(a, i) => {
            let a2 = map_primary(a, f);
            let i2 = map_primary(i, f);
            Primary::Subscript(Box::new(a2), Box::new(i2))
        }
        Primary::Call(n, args) => {
            let n2 = f(n);
            Primary::Call(n2, args.iter().map(|a| map_expr(a, f)).collect())
        }
        Primary::Pop(p) => Primary::Pop(Box::new(map_primary(p, f))),
    }
}

fn map_expr(e: &Expr, f: &mut dyn FnMut(&Name) -> Name) -> Expr {
    match e {
        Expr::Primary(p) => Expr::Primary(map_primary(p, f)),
        Expr::Unary { op, operand } => Expr::Unary { op: *op, operand: Box::new(map_expr(operand, f)) },
        Expr::Binary { op, lhs, rhs } => {
            let l = map_expr(lhs, f);
            Expr::Binary { op: *op, lhs: Box::new(l), rhs: rhs.iter().map(|r| map_expr(r, f)).collect() }
        }
    }
}

fn map_lhs(l: &Lhs, f: &mut dyn FnMut(&Name) -> Name) -> Lhs {
    match l {
        Lhs::Ident(i) => Lhs::Ident(map_ident(i, f)),
        Lhs::Subscript(a, i) => {
            let a2 = map_primary(a, f);
            let i2 = map_primary(i, f);
            Lhs::Subscript(Box::new(a2), Box::new(i2))
        }
    }
}

fn map_stmt(s: &Stmt, f: &mut dyn FnMut(&Name) -> Name) -> Stmt {
    match s {
        Stmt::Assign { dest, value, op } => {
            let d = map_lhs(dest, f);
            Stmt::Assign { dest: d, value: value.iter().map(|e| map_expr(e, f)).collect(), op: *op }
        }
        Stmt::PoeticNum { dest, rhs } => Stmt::PoeticNum {
            dest: map_lhs(dest, f),
            rhs: match rhs {
                PoeticRhs::Expr(e) => PoeticRhs::Expr(map_expr(e, f)),
                PoeticRhs::Literal(l) => PoeticRhs::Literal(l.clone()),
            },
        },
        Stmt::PoeticStr { dest, text } => Stmt::PoeticStr { dest: map_lhs(dest, f), text: text.clone() },
        Stmt::If { cond, then, els } => {
            let c = map_expr(cond, f);
            let t = map_block(then, f);
            Stmt::If { cond: c, then: t, els: els.as_ref().map(|e| map_block(e, f)) }
        }
        Stmt::While { cond, body } => {
            let c = map_expr(cond, f);
            Stmt::While { cond: c, body: map_block(body, f) }
        }
        Stmt::Until { cond, body } => {
            let c = map_expr(cond, f);
            Stmt::Until { cond: c, body: map_block(body, f) }
        }
        Stmt::Inc { dest, amount } => Stmt::Inc { dest: map_ident(dest, f), amount: *amount },
        Stmt::Dec { dest, amount } => Stmt::Dec { dest: map_ident(dest, f), amount: *amount },
        Stmt::Input { dest } => Stmt::Input { dest: dest.as_ref().map(|d| map_lhs(d, f)) },
        Stmt::Output { value } => Stmt::Output { value: map_expr(value, f) },
        Stmt::Mutation { op, operand, dest, param } => {
            let o = map_primary(operand, f);
            let d = dest.as_ref().map(|d| map_lhs(d, f));
            Stmt::Mutation { op: *op, operand: o, dest: d, param: param.as_ref().map(|p| map_expr(p, f)) }
        }
        Stmt::Rounding { dir, operand } => Stmt::Rounding { dir: *dir, operand: map_expr(operand, f) },
        Stmt::Continue => Stmt::Continue,
        Stmt::Break => Stmt::Break,
        Stmt::Push { array, value } => {
            let a = map_primary(array, f);
            Stmt::Push {
                array: a,
                value: value.as_ref().map(|v| match v {
                    PushRhs::List(es) => PushRhs::List(es.iter().map(|e| map_expr(e, f)).collect()),
                    PushRhs::Poetic(p) => PushRhs::Poetic(p.clone()),
                }),
            }
        }
        Stmt::Pop { array, dest } => {
            let a = map_primary(array, f);
            Stmt::Pop { array: a, dest: dest.as_ref().map(|d| map_lhs(d, f)) }
        }
        Stmt::Return { value } => Stmt::Return { value: map_expr(value, f) },
        Stmt::Function { name, params, body } => {
            let n = f(name);
            let ps = params.iter().map(|p| f(p)).collect();
            Stmt::Function { name: n, params: ps, body: map_block(body, f) }
        }
        Stmt::Call { name, args } => {
            let n = f(name);
            Stmt::Call { name: n, args: args.iter().map(|a| map_expr(a, f)).collect() }
        }
    }
}

/// all distinct variables (by key) mentioned in a program, in order of first mention
pub fn collect_names(p: &Program) -> Vec<Name> {
    let mut seen: Vec<Name> = vec![];
    let _ = map_names(p, &mut |n| {
        if !seen.iter().any(|s| s.key() == n.key()) {
            seen.push(n.clone());
        }
        n.clone()
    });
    seen
}
